#!/usr/bin/env python3
"""Warm the per-profile Kani target directories (dependencies compile once)."""
import os, subprocess, sys
sys.path.insert(0, os.path.dirname(os.path.abspath(__file__)))
from lib import gen, kani_run
hs = kani_run.discover()
for profile in kani_run.PROFILES:
    g = [h for h in hs if h.profile == profile]
    if not g:
        continue
    crate = gen.generate(profile)
    cmd = ["cargo", "kani", "--manifest-path", os.path.join(crate, "Cargo.toml"), "--target-dir",
           kani_run.target_dir(profile), "-Z", "stubbing", "--only-codegen", "--exact", "--harness", g[0].full]
    print("warming", profile, flush=True)
    subprocess.run(cmd, env=kani_run.KANI_ENV, stdout=subprocess.DEVNULL, stderr=subprocess.STDOUT)
