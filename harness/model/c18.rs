//! C01/C04/C18 - the receive loop (`_recv_inner`) on the scripted socket with the virtual clock (M3).
//!
//! The end-to-end query (real datagram bytes through the pooled buffer, the real decoder, unwrap_pdu and to_python)
//! did not finish in 900 s, so the loop is checked with the MESSAGE DECODER cut out (S8): `SnmpV2cMessage::try_from`
//! is replaced by a script of arbitrary outcomes (decode error / message with arbitrary request-id and community).
//! What stays real: recv_socket, the skip/deliver/stop control flow, unwrap_pdu, buffer reset, OpGet::to_python,
//! error mapping.  The decoder itself is checked in the real-dependency profile (C01/C02/C16), unwrap_pdu in C04.
use super::spec::*;
use super::util::*;
use crate::error::{SnmpError, SnmpResult};
use crate::snmp::getresponse::{SnmpGetResponse, SnmpVar};
use crate::snmp::msg::{SnmpPdu, SnmpV2cMessage};
use crate::snmp::op::{OpGet, PyOp};
use crate::socket::snmpsocket::SnmpSocket;
use crate::socket::SnmpV2cClientSocket;
use pyo3::exceptions::*;
use pyo3::Leaf;
use socket2::{Dgram, DCAP};

pub const K_DECODE_ERR: u8 = 0;
pub const K_STRAY: u8 = 1;
pub const K_MATCH: u8 = 2;
/// script of decoder outcomes: (kind, request-id, community matches)
pub static mut MSGS: [(u8, i64, bool); 3] = [(0, 0, false); 3];
pub static mut MSG_POS: usize = 0;
static OID_136: [u8; 3] = [43, 6, 1];

pub fn stub_v2c_try_from<'a>(_i: &'a [u8]) -> SnmpResult<SnmpV2cMessage<'a>>
where
    'a: 'a,
{
    unsafe {
        let k = MSG_POS;
        MSG_POS += 1;
        if k >= 3 || MSGS[k].0 == K_DECODE_ERR {
            return Err(SnmpError::InvalidPdu);
        }
        let (_, rid, comm_ok) = MSGS[k];
        Ok(SnmpV2cMessage {
            community: if comm_ok { b"pub" } else { b"pub2" },
            pdu: SnmpPdu::GetResponse(SnmpGetResponse {
                request_id: rid,
                error_status: 0,
                error_index: 0,
                vars: vec![SnmpVar { oid: oid(&OID_136), value: mk_value(V_INT, k as i64) }],
            }),
        })
    }
}

macro_rules! recv_loop {
    ($name:ident, $n:expr) => {
        #[kani::proof]
        #[kani::unwind(6)]
        #[kani::stub(alloc::fmt::format, stub_format)]
        #[kani::stub(core::fmt::write, stub_fmt_write)]
        #[kani::stub(<std::io::Error as std::fmt::Display>::fmt, stub_ioerr_fmt)]
        #[kani::stub(<std::string::String as std::convert::TryFrom<&crate::ber::SnmpOid<'_>>>::try_from, stub_oid_to_string)]
        #[kani::stub(<crate::snmp::msg::SnmpV2cMessage<'_> as core::convert::TryFrom<&[u8]>>::try_from, stub_v2c_try_from)]
        fn $name() {
            const TIMEOUT: u64 = 1_000_000_000;
            let draw: u64 = kani::any();
            unsafe {
                rand::QUEUE[0] = draw;
                rand::DRAWN = 0;
            }
            let mut s = SnmpV2cClientSocket::new("127.0.0.1:161".to_string(), "pub".to_string(), 0, 0, 0, TIMEOUT).expect("socket");
            let rid = s.get_request_id().get_next();
            // the script: $n datagrams of arbitrary kind, then silence
            let mut first_end: usize = $n; // index of the first datagram that ends the call
            let mut waited: u64 = 0;
            let mut i = 0;
            while i < $n {
                let kind: u8 = kani::any();
                kani::assume(kind <= K_MATCH);
                let mrid: i64 = kani::any();
                let comm_ok: bool = kani::any();
                let is_match = kind != K_DECODE_ERR && mrid == rid && comm_ok;
                kani::assume((kind == K_MATCH) == is_match);
                let w: u64 = kani::any();
                kani::assume(w <= TIMEOUT);
                unsafe { MSGS[i] = (kind, mrid, comm_ok) };
                let io = s.get_io();
                io.rx[i] = Dgram { len: 20, data: [0; DCAP], delay_ns: w };
                if first_end == $n {
                    waited += w;
                    if kind != K_STRAY {
                        first_end = i;
                    }
                }
                i += 1;
            }
            s.get_io().rx_len = $n;
            unsafe { MSG_POS = 0 };
            let r = s.recv_get(py());
            let calls = s.get_io().recv_calls;
            let elapsed = s.get_io().elapsed_ns;
            if first_end == $n {
                // only strays (or nothing): the wait must end with a timeout
                assert!(matches!(&r, Err(e) if e.is::<PyBlockingIOError>()), "silence_must_end_in_blockingioerror");
                assert!(calls == $n + 1, "one_receive_per_datagram_plus_the_timeout");
                // C18: total wait bounded by the session timeout
                assert!(elapsed <= TIMEOUT, "timeout_restarted_by_stray_datagrams");
                kani::cover!(true, "timed out");
            } else {
                assert!(calls == first_end + 1, "loop_must_stop_at_first_decisive_datagram");
                let (kind, _, _) = unsafe { MSGS[first_end] };
                if kind == K_DECODE_ERR {
                    assert!(matches!(&r, Err(e) if e.is::<crate::error::PySnmpDecodeError>()), "undecodable_datagram_ends_call_with_decode_error");
                    kani::cover!(first_end > 0, "decode error after a stray");
                } else {
                    match &r {
                        Ok(o) => assert!(o.obj().leaf() == Some(Leaf::I64(first_end as i64)), "delivered_value_is_the_matching_reply"),
                        Err(_) => panic!("matching_reply_not_delivered"),
                    }
                    assert!(elapsed == waited, "virtual_clock_accounting");
                    kani::cover!(first_end > 0, "matching reply delivered after a stray");
                }
            }
            core::mem::forget(s);
            core::mem::forget(r);
        }
    };
}
//@ C01,C04,C18 quick timeout=900 | v2c receive loop, decoder scripted (cut S8): 1 datagram of arbitrary outcome (decode error / stray with any request-id+community / matching), arbitrary arrival delay <= timeout, then silence
recv_loop!(recv_loop_v2c_1, 1);
//@ C01,C04,C18 quick timeout=900 | same with 2 datagrams
recv_loop!(recv_loop_v2c_2, 2);

macro_rules! socket_timeout_config {
    ($name:ident, $t:expr) => {
        #[kani::proof]
        #[kani::unwind(6)]
        #[kani::stub(alloc::fmt::format, stub_format)]
        #[kani::stub(core::fmt::write, stub_fmt_write)]
        #[kani::stub(<std::io::Error as std::fmt::Display>::fmt, stub_ioerr_fmt)]
        fn $name() {
            let t: u64 = $t;
            let mut s = SnmpV2cClientSocket::new("127.0.0.1:161".to_string(), "pub".to_string(), 0, 0, 0, t).expect("socket");
            let io = s.get_io();
            if t > 0 {
                assert!(io.read_timeout.get() == Some(std::time::Duration::from_nanos(t)), "receive_timeout_is_session_timeout");
                assert!(!io.nonblocking.get(), "blocking_socket_expected");
            } else {
                assert!(io.nonblocking.get() && io.read_timeout.get().is_none(), "zero_timeout_is_nonblocking");
            }
            assert!(io.connected.get(), "connected");
            kani::cover!(true, "configured");
            core::mem::forget(s);
        }
    };
}
//@ C18,C03 thorough timeout=5400 optional | socket construction for EVERY timeout_ns (symbolic 64-bit division: not seen to finish): a positive timeout arms exactly that receive timeout; zero selects non-blocking mode
socket_timeout_config!(socket_timeout_config_any, kani::any());
//@ C18,C03 quick | socket construction, timeout 1.5 s (fractional seconds): receive timeout == 1.5 s exactly
socket_timeout_config!(socket_timeout_config_1500ms, 1_500_000_000u64);
//@ C18,C03 quick | socket construction, timeout 0.3 s (below one second)
socket_timeout_config!(socket_timeout_config_300ms, 300_000_000u64);
//@ C18,C03 quick | socket construction, timeout 0: non-blocking socket
socket_timeout_config!(socket_timeout_config_0, 0u64);
