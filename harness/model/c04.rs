//! C04 - only the reply to the outstanding request is ever delivered.
//! Unit harnesses on the real `unwrap_pdu` of each version with messages constructed as structs (all fields pub),
//! after real request-id draws (`get_next()` through the model rand), plus decode-level version checks.
use super::spec::*;
use super::util::*;
use crate::reqid::RequestId;
use crate::snmp::getresponse::SnmpGetResponse;
use crate::snmp::msg::v3::{MsgData, ScopedPdu, SnmpV3Message, UsmParameters};
use crate::snmp::msg::{SnmpPdu, SnmpV1Message, SnmpV2cMessage};
use crate::socket::snmpsocket::SnmpSocket;
use crate::socket::{SnmpV1ClientSocket, SnmpV2cClientSocket, SnmpV3ClientSocket};

fn response(rid: i64) -> SnmpPdu<'static> {
    SnmpPdu::GetResponse(SnmpGetResponse { request_id: rid, error_status: 0, error_index: 0, vars: Vec::new() })
}

macro_rules! match_community {
    ($name:ident, $sock:ident, $msg:ident) => {
        #[kani::proof]
        #[kani::unwind(6)]
        #[kani::stub(alloc::fmt::format, stub_format)]
        fn $name() {
            let sc: [u8; 3] = kani::any();
            kani::assume(sc[0] < 128 && sc[1] < 128 && sc[2] < 128);
            let sn: usize = kani::any();
            kani::assume(sn <= 3);
            let community = unsafe { String::from_utf8_unchecked(sc[..sn].to_vec()) };
            let mut s = $sock::new("127.0.0.1:161".to_string(), community, 0, 0, 0, 0).expect("socket");
            // two real draws: the second one is the outstanding request
            let d1: u64 = kani::any();
            let d2: u64 = kani::any();
            unsafe {
                rand::QUEUE[0] = d1;
                rand::QUEUE[1] = d2;
                rand::DRAWN = 0;
            }
            let r1 = s.get_request_id().get_next();
            let r2 = s.get_request_id().get_next();
            assert!(r1 >= 0 && r1 <= 0x7fff_ffff && r2 >= 0 && r2 <= 0x7fff_ffff, "request_id_range");
            // the incoming message
            let mc: [u8; 3] = kani::any();
            let mn: usize = kani::any();
            kani::assume(mn <= 3);
            let mrid: i64 = kani::any();
            let msg = $msg { community: &mc[..mn], pdu: response(mrid) };
            let delivered = s.unwrap_pdu(msg).is_some();
            let mut same_comm = sn == mn;
            let mut i = 0;
            while i < 3 {
                if i < sn && i < mn && sc[i] != mc[i] {
                    same_comm = false;
                }
                i += 1;
            }
            assert!(delivered == (same_comm && mrid == r2), "delivered_iff_community_and_latest_request_id");
            kani::cover!(delivered, "delivered");
            kani::cover!(!delivered && same_comm && mrid == r1 && r1 != r2, "reply to the previous request skipped");
            kani::cover!(!delivered && same_comm && (mrid & 0x7fff_ffff) == r2, "id congruent modulo 2^31 skipped");
            core::mem::forget(s);
        }
    };
}
//@ C04 quick | v2c unwrap_pdu: any session community (0..3 octets), two arbitrary random draws, any message community and ANY i64 request-id: delivered <=> community equal and id == latest drawn id
match_community!(match_v2c, SnmpV2cClientSocket, SnmpV2cMessage);
//@ C04 quick | v1 unwrap_pdu: same
match_community!(match_v1, SnmpV1ClientSocket, SnmpV1Message);

//@ C04,C13 quick | v3 unwrap_pdu (noAuthNoPriv): session engine id empty or 1..3 octets, user 0..2 octets; message with any engine id / user / msgID / request-id, plaintext GetResponse or Report: delivered <=> user, engine id (if known), msgID and (for responses) request-id all match the latest ones
#[kani::proof]
#[kani::unwind(6)]
#[kani::stub(alloc::fmt::format, stub_format)]
fn match_v3() {
    let se: [u8; 3] = kani::any();
    let sen: usize = kani::any();
    kani::assume(sen <= 3);
    let su: [u8; 2] = kani::any();
    kani::assume(su[0] < 128 && su[1] < 128);
    let sun: usize = kani::any();
    kani::assume(sun <= 2);
    let user = unsafe { String::from_utf8_unchecked(su[..sun].to_vec()) };
    let mut s = SnmpV3ClientSocket::new("127.0.0.1:161".to_string(), se[..sen].to_vec(), user, 0, &[], 0, &[], 0, 0, 0, 0).expect("socket");
    // one request: draws request-id then msg-id, as send_request + push_pdu do
    let d1: u64 = kani::any();
    let d2: u64 = kani::any();
    unsafe {
        rand::QUEUE[0] = d1;
        rand::QUEUE[1] = d2;
        rand::DRAWN = 0;
    }
    let rid = s.get_request_id().get_next();
    let mid = s.verif_msg_id().get_next();
    let me: [u8; 3] = kani::any();
    let men: usize = kani::any();
    kani::assume(men <= 3);
    let mu: [u8; 2] = kani::any();
    let mun: usize = kani::any();
    kani::assume(mun <= 2);
    let m_mid: i64 = kani::any();
    let m_rid: i64 = kani::any();
    let report: bool = kani::any();
    let boots: i64 = kani::any();
    let time: i64 = kani::any();
    let ce: [u8; 3] = kani::any();
    let cen: usize = kani::any();
    kani::assume(cen <= 3);
    let pdu = if report { SnmpPdu::Report(crate::snmp::report::SnmpReport(&me)) } else { response(m_rid) };
    let msg = SnmpV3Message {
        msg_id: m_mid,
        flag_auth: false,
        flag_priv: false,
        flag_report: false,
        usm: UsmParameters { engine_id: &me[..men], engine_boots: boots, engine_time: time, user_name: &mu[..mun], auth_params: &[], privacy_params: &[] },
        // the scoped PDU's contextEngineID is a different field and must play no role
        data: MsgData::Plaintext(ScopedPdu { engine_id: &ce[..cen], pdu }),
    };
    let delivered = s.unwrap_pdu(msg).is_some();
    let mut same_user = sun == mun;
    let mut same_engine = sen == men;
    let mut i = 0;
    while i < 3 {
        if i < 2 && i < sun && i < mun && su[i] != mu[i] {
            same_user = false;
        }
        if i < sen && i < men && se[i] != me[i] {
            same_engine = false;
        }
        i += 1;
    }
    let expect = same_user && (sen == 0 || same_engine) && m_mid == mid && (report || m_rid == rid);
    assert!(delivered == expect, "delivered_iff_user_engine_msgid_requestid");
    // C13: boots/time and a discovered engine id are taken from ACCEPTED messages only, from the USM fields
    {
        let (e, b, t) = s.verif_engine();
        if delivered {
            assert!(b == boots && t == time, "accepted_message_sets_boots_time");
            if sen == 0 {
                assert!(e.len() == men, "discovered_engine_id_is_usm_engine_id");
                let mut i = 0;
                while i < 3 {
                    if i < men {
                        assert!(e[i] == me[i], "discovered_engine_id_is_usm_engine_id");
                    }
                    i += 1;
                }
            } else {
                assert!(e.len() == sen, "known_engine_id_kept");
            }
        } else {
            assert!(b == 0 && t == 0, "rejected_message_must_not_set_boots_time");
            assert!(e.len() == sen, "rejected_message_must_not_set_engine_id");
        }
    }
    kani::cover!(delivered && report, "report delivered");
    kani::cover!(delivered && !report, "response delivered");
    kani::cover!(!delivered && same_user && sen > 0 && men > sen, "longer engine id skipped");
    core::mem::forget(s);
}
