//! C09/C13/C14 - what a v3 session puts on the wire (real SnmpV3ClientSocket::push_pdu into a LOCAL buffer; transcript
//! digests M6).  Lengths are concrete per query (engine id 5, user 2, boots/time/msgID widths fixed by the chosen
//! values), contents symbolic where stated.  Expected datagram built by the independent writer `spec::W`.
use super::spec::*;
use super::util::*;
use crate::buf::Buffer;
use crate::snmp::get::SnmpGet;
use crate::snmp::msg::v3::{MsgData, ScopedPdu, SnmpV3Message, UsmParameters};
use crate::snmp::msg::SnmpPdu;
use crate::socket::snmpsocket::SnmpSocket;
use crate::socket::SnmpV3ClientSocket;
use digest_model::{CTXS, NEXT, OUT, OVERFLOW};

static OID3: [u8; 3] = [43, 6, 1];
const RID: i64 = 0x0102_0304;
const MID_DRAW: u64 = 0x0055_6677;

fn reset_digests(out: [[u8; 20]; 4]) {
    unsafe {
        NEXT = 0;
        OVERFLOW = false;
        let mut i = 0;
        while i < 4 {
            OUT[i] = out[i];
            CTXS[i].len = 0;
            CTXS[i].total = 0;
            CTXS[i].n_chunks = 0;
            i += 1;
        }
    }
}

/// Expected plaintext v3 Get message; returns (message, offset of the 12 MAC octets or usize::MAX)
fn expected_plain(engine: &[u8; 5], user: &[u8; 2], boots: i64, time: i64, msg_id: i64, flags: u8, mac: Option<&[u8; 12]>) -> (W, usize) {
    // scoped PDU
    let mut vb = W::new();
    vb.octets(0x06, &OID3);
    vb.bytes(&[0x05, 0]);
    let mut vbs = W::new();
    vbs.tlv(0x30, &vb);
    let mut pdu = W::new();
    pdu.int(RID);
    pdu.int(0);
    pdu.int(0);
    pdu.tlv(0x30, &vbs);
    let mut sp = W::new();
    sp.octets(0x04, engine);
    sp.octets(0x04, &[]);
    sp.tlv(0xa0, &pdu);
    // USM
    let mut usm = W::new();
    usm.octets(0x04, engine);
    usm.int(boots);
    usm.int(time);
    usm.octets(0x04, user);
    let mac_off_in_usm = usm.n + 2;
    match mac {
        Some(m) => usm.octets(0x04, m),
        None => usm.octets(0x04, &[]),
    }
    usm.octets(0x04, &[]);
    let mut usm_seq = W::new();
    usm_seq.tlv(0x30, &usm);
    // header data
    let mut hd = W::new();
    hd.int(msg_id);
    hd.int(2048);
    hd.octets(0x04, &[flags]);
    hd.int(3);
    let mut body = W::new();
    body.int(3);
    body.tlv(0x30, &hd);
    let off_usm_octets = body.n;
    body.tlv(0x04, &usm_seq);
    body.tlv(0x30, &sp);
    let mut msg = W::new();
    msg.tlv(0x30, &body);
    // outer header 2 + OCTET STRING header 2 + SEQUENCE header 2 (all short form at these sizes)
    let mac_off = if mac.is_some() { 2 + off_usm_octets + 2 + 2 + mac_off_in_usm } else { usize::MAX };
    (msg, mac_off)
}

//@ C09,C13,C03 thorough timeout=5400 optional | v3 authNoPriv (HMAC-MD5 transcript), localized key (any 16 octets), engine id (any 5 octets) given at construction, user "ab", boots/time adopted from an accepted Report (2-octet and 4-octet values): push_pdu(Get 1.3.6.1) == reference message with flags=auth, USM engine/boots/time/user as the session holds them, 12-octet msgAuthenticationParameters == first 12 octets of the outer digest, inner digest fed with the whole message with that field ZEROED, keyed with the localized key
#[kani::proof]
#[kani::unwind(10)]
#[kani::stub(alloc::fmt::format, stub_format)]
fn v3_auth_wire_md5() {
    let engine: [u8; 5] = kani::any();
    let key: [u8; 16] = kani::any();
    let user = *b"ab";
    let mut s = SnmpV3ClientSocket::new("127.0.0.1:161".to_string(), engine.to_vec(), "ab".to_string(), 0x81, &key, 0, &[], 0, 0, 0, 0).expect("socket");
    // boots/time arrive with an accepted message
    unsafe {
        rand::QUEUE[0] = 7;
        rand::QUEUE[1] = 9;
        rand::QUEUE[2] = MID_DRAW;
        rand::DRAWN = 0;
    }
    let rid0 = s.get_request_id().get_next();
    let mid0 = s.verif_msg_id().get_next();
    let boots: i64 = 0x0123;
    let time: i64 = 0x0102_0305;
    let rep = SnmpV3Message {
        msg_id: mid0,
        flag_auth: false,
        flag_priv: false,
        flag_report: false,
        usm: UsmParameters { engine_id: &engine, engine_boots: boots, engine_time: time, user_name: &user, auth_params: &[], privacy_params: &[] },
        data: MsgData::Plaintext(ScopedPdu { engine_id: &engine, pdu: SnmpPdu::Report(crate::snmp::report::SnmpReport(&OID3)) }),
    };
    let _ = rid0;
    assert!(s.unwrap_pdu(rep).is_some(), "report_accepted");
    // the request
    let out: [[u8; 20]; 4] = kani::any();
    reset_digests(out);
    let pdu = SnmpPdu::GetRequest(SnmpGet { request_id: RID, vars: vec![oid(&OID3)] });
    let mut buf = Buffer::default();
    s.push_pdu(pdu, &mut buf).expect("push_pdu");
    let mut mac = [0u8; 12];
    mac.copy_from_slice(&out[1][..12]);
    let (want, mac_off) = expected_plain(&engine, &user, boots, time, (MID_DRAW as i64) & 0x7fff_ffff, 0x01, Some(&mac));
    let d = buf.data();
    assert!(d.len() == want.n, "v3_message_length");
    // unrolled by macro: no harness loop, so the unwind bound is dictated by repository code only
    macro_rules! cmp8 {
        ($($k:expr),*) => { $( {
            let mut j = 0;
            while j < 8 {
                let i = $k * 8 + j;
                if i < want.n {
                    assert!(d[i] == want.b[i], "v3_message_octets");
                }
                j += 1;
            }
        } )* };
    }
    cmp8!(0, 1, 2, 3, 4, 5, 6, 7, 8, 9, 10, 11, 12, 13, 14, 15, 16, 17, 18, 19);
    unsafe {
        assert!(!OVERFLOW && NEXT == 2, "hmac_two_contexts");
        let c1 = &CTXS[0];
        assert!(c1.total == 64 + want.n, "hmac_covers_whole_message");
        let mut i = 0;
        while i < 8 {
            assert!(c1.data[i] == key[i] ^ 0x36 && c1.data[8 + i] == key[8 + i] ^ 0x36, "hmac_key_is_localized_key");
            i += 1;
        }
        macro_rules! cmpt8 {
            ($($k:expr),*) => { $( {
                let mut j = 0;
                while j < 8 {
                    let i = $k * 8 + j;
                    if i < want.n {
                        let w = if i >= mac_off && i < mac_off + 12 { 0 } else { want.b[i] };
                        assert!(c1.data[64 + i] == w, "hmac_input_is_message_with_zeroed_mac");
                    }
                    j += 1;
                }
            } )* };
        }
        cmpt8!(0, 1, 2, 3, 4, 5, 6, 7, 8, 9, 10, 11, 12, 13, 14, 15, 16, 17, 18, 19);
    }
    kani::cover!(true, "signed message emitted");
    core::mem::forget(s);
    core::mem::forget(buf);
}

// ------------------------------------------------------------------------------------
// push_pdu's own decisions, with the v3 message serialiser cut out (S11): `SnmpV3Message::push_ber` is replaced by a
// recorder that notes every field it is given (and pushes the auth placeholder + bookmark like the real one), so
// the flags, identities, salts and the sign() call are checked for every request kind in seconds.  The serialiser
// itself is checked against the reference writer in v3_auth_wire_md5 (thorough) and by the USM/message unit tests.
pub static mut R_MSG_ID: i64 = 0;
pub static mut R_FLAGS: (bool, bool, bool) = (false, false, false);
pub static mut R_ENGINE: (usize, usize) = (0, 0);
pub static mut R_BOOTS_TIME: (i64, i64) = (0, 0);
pub static mut R_USER: (usize, usize) = (0, 0);
pub static mut R_AUTH_LEN: usize = 0;
pub static mut R_AUTH_ALL_ZERO: bool = false;
pub static mut R_PRIV: (usize, usize) = (0, 0);
pub static mut R_DATA_ENCRYPTED: bool = false;
pub static mut R_DATA: (usize, usize) = (0, 0);
pub static mut R_SCOPED_ENGINE: (usize, usize) = (0, 0);
pub static mut R_CALLS: usize = 0;

pub fn stub_v3_push_ber<'a>(m: &SnmpV3Message<'a>, buf: &mut Buffer) -> crate::error::SnmpResult<()>
where
    'a: 'a,
{
    unsafe {
        R_CALLS += 1;
        R_MSG_ID = m.msg_id;
        R_FLAGS = (m.flag_auth, m.flag_priv, m.flag_report);
        R_ENGINE = (m.usm.engine_id.as_ptr() as usize, m.usm.engine_id.len());
        R_BOOTS_TIME = (m.usm.engine_boots, m.usm.engine_time);
        R_USER = (m.usm.user_name.as_ptr() as usize, m.usm.user_name.len());
        R_AUTH_LEN = m.usm.auth_params.len();
        R_AUTH_ALL_ZERO = m.usm.auth_params.iter().all(|x| *x == 0);
        R_PRIV = (m.usm.privacy_params.as_ptr() as usize, m.usm.privacy_params.len());
        match &m.data {
            MsgData::Encrypted(x) => {
                R_DATA_ENCRYPTED = true;
                R_DATA = (x.as_ptr() as usize, x.len());
            }
            MsgData::Plaintext(sp) => {
                R_DATA_ENCRYPTED = false;
                R_SCOPED_ENGINE = (sp.engine_id.as_ptr() as usize, sp.engine_id.len());
            }
        }
    }
    // like the real serialiser: the auth placeholder goes into the buffer and is bookmarked
    buf.push(&[0xee, 0xee])?;
    if !m.usm.auth_params.is_empty() {
        buf.push(m.usm.auth_params)?;
        buf.set_bookmark(0);
    }
    Ok(())
}

macro_rules! v3_push_fields {
    ($name:ident, $auth:expr, $priv:expr) => {
        #[kani::proof]
        #[kani::unwind(18)]
        #[kani::stub(alloc::fmt::format, stub_format)]
        #[kani::stub(<crate::snmp::msg::v3::SnmpV3Message<'_> as crate::ber::BerEncoder>::push_ber, stub_v3_push_ber)]
        #[kani::stub(cipher::KeyInit::new_from_slice, super::c11::RecKey::rec_new_from_slice)]
        #[kani::stub(cipher::InnerIvInit::inner_iv_slice_init, super::c11::RecIv::rec_inner_iv_slice_init)]
        #[kani::stub(cipher::BlockEncryptMut::encrypt_padded_mut, super::c11::RecEnc::rec_encrypt_padded_mut)]
        fn $name() {
            let engine: [u8; 5] = kani::any();
            let key: [u8; 20] = kani::any();
            let auth_alg: u8 = $auth; // 0, or 0x80|alg (localized key)
            let priv_alg: u8 = $priv;
            let ks = if auth_alg & 0x3f == 1 { 16 } else { 20 };
            let seed: u64 = kani::any();
            let mid_draw: u64 = kani::any();
            unsafe {
                rand::QUEUE[0] = seed; // salt seed (only drawn when privacy is on)
                rand::QUEUE[1] = mid_draw;
                rand::QUEUE[2] = mid_draw;
                rand::DRAWN = 0;
                R_CALLS = 0;
            }
            let out: [[u8; 20]; 4] = kani::any();
            reset_digests(out);
            let mut s = SnmpV3ClientSocket::new(
                "127.0.0.1:161".to_string(), engine.to_vec(), "ab".to_string(),
                auth_alg, if auth_alg == 0 { &[] } else { &key[..ks] },
                priv_alg, if priv_alg == 0 { &[] } else { &key[..ks] }, 0, 0, 0, 0,
            ).expect("socket");
            let drawn_before = unsafe { rand::DRAWN };
            let refresh: bool = kani::any();
            let pdu = if refresh {
                SnmpPdu::GetRequest(SnmpGet { request_id: RID, vars: Vec::new() })
            } else {
                SnmpPdu::GetNextRequest(SnmpGet { request_id: RID, vars: vec![oid(&OID3)] })
            };
            let mut buf = Buffer::default();
            let r = s.push_pdu(pdu, &mut buf);
            assert!(r.is_ok(), "push_pdu_failed");
            let has_auth = auth_alg != 0;
            let has_priv = priv_alg != 0;
            let (e_ptr, e_len) = {
                let (e, _, _) = s.verif_engine();
                (e.as_ptr() as usize, e.len())
            };
            unsafe {
                assert!(R_CALLS == 1, "one_message_serialised");
                let want_mid = (rand::QUEUE[drawn_before] as i64) & 0x7fff_ffff;
                assert!(R_MSG_ID == want_mid, "msg_id_is_masked_draw");
                assert!(R_FLAGS.0 == has_auth, "auth_flag_iff_auth_key");
                assert!(R_FLAGS.1 == has_priv, "priv_flag_iff_priv_key");
                assert!(R_FLAGS.2 == refresh, "reportable_flag_iff_discovery_probe");
                assert!(R_ENGINE == (e_ptr, e_len) && e_len == 5, "usm_engine_id_is_session_engine_id");
                assert!(R_BOOTS_TIME == (0, 0), "usm_boots_time_are_session_values");
                assert!(R_USER.1 == 2, "usm_user_name");
                assert!(R_AUTH_LEN == if has_auth { 12 } else { 0 } && R_AUTH_ALL_ZERO, "auth_placeholder_is_12_zero_octets_iff_auth");
                if has_priv {
                    assert!(R_DATA_ENCRYPTED, "msg_data_must_be_encrypted");
                    assert!(R_PRIV.1 == 8, "privacy_parameters_are_8_octets");
                    assert!(super::c11::REC_ENC_CALLS == 1 && R_DATA.0 == super::c11::REC_BUF_PTR && R_DATA.1 == super::c11::REC_MSG_LEN, "msg_data_is_cipher_output");
                } else {
                    assert!(!R_DATA_ENCRYPTED && R_PRIV.1 == 0, "plaintext_without_priv_key");
                    assert!(R_SCOPED_ENGINE == (e_ptr, e_len), "context_engine_id_is_session_engine_id");
                }
                // signing: with a key the 12 placeholder octets become the outer digest prefix; without, nothing is hashed
                let d = buf.data();
                if has_auth {
                    assert!(NEXT == 2 && d.len() == 14, "signed_once");
                    let mut i = 0;
                    while i < 12 {
                        assert!(d[i] == out[1][i], "mac_written_over_placeholder");
                        i += 1;
                    }
                    assert!(d[12] == 0xee && d[13] == 0xee, "sign_touches_only_the_mac_field");
                } else {
                    assert!(NEXT == 0 && d.len() == 2, "nothing_signed_without_auth_key");
                }
            }
            kani::cover!(refresh, "discovery probe");
            kani::cover!(!refresh, "getnext");
            core::mem::forget(s);
            core::mem::forget(buf);
        }
    };
}
//@ C09,C03,C13,C14 thorough timeout=5400 optional | v3 push_pdu decisions (serialiser cut S11), noAuthNoPriv: flags clear, empty auth/priv params, plaintext, no signing and NO PANIC; msgID = masked draw; USM + context engine id = session's
v3_push_fields!(v3_fields_noauth, 0u8, 0u8);
//@ C09,C03,C13,C14 thorough timeout=5400 optional | v3 push_pdu decisions, MD5 auth (localized key), no privacy: auth flag, 12 zero placeholder octets replaced by the MAC, plaintext
v3_push_fields!(v3_fields_md5, 0x81u8, 0u8);
//@ C09,C03,C13,C14 thorough timeout=5400 optional | v3 push_pdu decisions, SHA-1 auth + DES: auth+priv flags, msgData = cipher output, 8-octet salt as msgPrivacyParameters, for a GetNext AND for the discovery probe (refresh)
v3_push_fields!(v3_fields_sha1_des, 0x82u8, 0x81u8);
//@ C09,C03,C13,C14 thorough timeout=5400 optional | v3 push_pdu decisions, MD5 auth + AES-128
v3_push_fields!(v3_fields_md5_aes, 0x81u8, 0x82u8);

//@ C09,C14,C03 quick timeout=1500 | SnmpV3Message::push_ber (real serialiser, local buffer) with ALL EIGHT combinations of the auth/priv/reportable flags, empty USM strings, 2-octet encrypted msgData: the msgFlags octet on the wire == auth | priv<<1 | reportable<<2, msgID/version/model as given
#[kani::proof]
#[kani::unwind(10)]
#[kani::stub(alloc::fmt::format, stub_format)]
fn v3_msg_flags_byte() {
    use crate::ber::BerEncoder;
    let fa: bool = kani::any();
    let fp: bool = kani::any();
    let fr: bool = kani::any();
    let data = [0xaau8, 0xbb];
    let m = SnmpV3Message {
        msg_id: 0x1234,
        flag_auth: fa,
        flag_priv: fp,
        flag_report: fr,
        usm: UsmParameters { engine_id: &[], engine_boots: 0, engine_time: 0, user_name: &[], auth_params: &[], privacy_params: &[] },
        data: MsgData::Encrypted(&data),
    };
    let mut buf = Buffer::default();
    m.push_ber(&mut buf).expect("fits");
    // reference
    let mut usm = W::new();
    usm.octets(0x04, &[]);
    usm.int(0);
    usm.int(0);
    usm.octets(0x04, &[]);
    usm.octets(0x04, &[]);
    usm.octets(0x04, &[]);
    let mut usm_seq = W::new();
    usm_seq.tlv(0x30, &usm);
    let mut hd = W::new();
    hd.int(0x1234);
    hd.int(2048);
    hd.octets(0x04, &[(fa as u8) | ((fp as u8) << 1) | ((fr as u8) << 2)]);
    hd.int(3);
    let mut body = W::new();
    body.int(3);
    body.tlv(0x30, &hd);
    body.tlv(0x04, &usm_seq);
    body.octets(0x04, &data);
    let mut want = W::new();
    want.tlv(0x30, &body);
    let d = buf.data();
    assert!(d.len() == want.n, "v3_message_length");
    macro_rules! cmp8 {
        ($($k:expr),*) => { $( {
            let mut j = 0;
            while j < 8 {
                let i = $k * 8 + j;
                if i < want.n {
                    assert!(d[i] == want.b[i], "v3_message_octets_incl_flags");
                }
                j += 1;
            }
        } )* };
    }
    cmp8!(0, 1, 2, 3, 4, 5, 6, 7);
    kani::cover!(fa && fr, "authenticated reportable message");
    kani::cover!(!fa && !fp && !fr, "no flags");
    core::mem::forget(buf);
}
