//! C09/C13/C14 - what a v3 session puts on the wire (real SnmpV3ClientSocket::push_pdu into a LOCAL buffer; transcript
//! digests M6).  Lengths are concrete per query (engine id 5, user 2, boots/time/msgID widths fixed by the chosen
//! values), contents symbolic where stated.  Expected datagram built by the independent writer `spec::W`.
use super::spec::*;
use super::util::*;
use crate::buf::Buffer;
use crate::snmp::get::SnmpGet;
use crate::snmp::msg::v3::{MsgData, ScopedPdu, SnmpV3Message, UsmParameters};
use crate::snmp::msg::SnmpPdu;
use crate::socket::snmpsocket::SnmpSocket;
use crate::socket::SnmpV3ClientSocket;
use digest_model::{CTXS, NEXT, OUT, OVERFLOW};

static OID3: [u8; 3] = [43, 6, 1];
const RID: i64 = 0x0102_0304;
const MID_DRAW: u64 = 0x0055_6677;

fn reset_digests(out: [[u8; 20]; 4]) {
    unsafe {
        NEXT = 0;
        OVERFLOW = false;
        let mut i = 0;
        while i < 4 {
            OUT[i] = out[i];
            CTXS[i].len = 0;
            CTXS[i].total = 0;
            CTXS[i].n_chunks = 0;
            i += 1;
        }
    }
}

/// Expected plaintext v3 Get message; returns (message, offset of the 12 MAC octets or usize::MAX)
fn expected_plain(engine: &[u8; 5], user: &[u8; 2], boots: i64, time: i64, msg_id: i64, flags: u8, mac: Option<&[u8; 12]>) -> (W, usize) {
    // scoped PDU
    let mut vb = W::new();
    vb.octets(0x06, &OID3);
    vb.bytes(&[0x05, 0]);
    let mut vbs = W::new();
    vbs.tlv(0x30, &vb);
    let mut pdu = W::new();
    pdu.int(RID);
    pdu.int(0);
    pdu.int(0);
    pdu.tlv(0x30, &vbs);
    let mut sp = W::new();
    sp.octets(0x04, engine);
    sp.octets(0x04, &[]);
    sp.tlv(0xa0, &pdu);
    // USM
    let mut usm = W::new();
    usm.octets(0x04, engine);
    usm.int(boots);
    usm.int(time);
    usm.octets(0x04, user);
    let mac_off_in_usm = usm.n + 2;
    match mac {
        Some(m) => usm.octets(0x04, m),
        None => usm.octets(0x04, &[]),
    }
    usm.octets(0x04, &[]);
    let mut usm_seq = W::new();
    usm_seq.tlv(0x30, &usm);
    // header data
    let mut hd = W::new();
    hd.int(msg_id);
    hd.int(2048);
    hd.octets(0x04, &[flags]);
    hd.int(3);
    let mut body = W::new();
    body.int(3);
    body.tlv(0x30, &hd);
    let off_usm_octets = body.n;
    body.tlv(0x04, &usm_seq);
    body.tlv(0x30, &sp);
    let mut msg = W::new();
    msg.tlv(0x30, &body);
    // outer header 2 + OCTET STRING header 2 + SEQUENCE header 2 (all short form at these sizes)
    let mac_off = if mac.is_some() { 2 + off_usm_octets + 2 + 2 + mac_off_in_usm } else { usize::MAX };
    (msg, mac_off)
}

//@ C09,C13,C03 thorough timeout=3600 | v3 authNoPriv (HMAC-MD5 transcript), localized key (any 16 octets), engine id (any 5 octets) given at construction, user "ab", boots/time adopted from an accepted Report (2-octet and 4-octet values): push_pdu(Get 1.3.6.1) == reference message with flags=auth, USM engine/boots/time/user as the session holds them, 12-octet msgAuthenticationParameters == first 12 octets of the outer digest, inner digest fed with the whole message with that field ZEROED, keyed with the localized key
#[kani::proof]
#[kani::unwind(10)]
#[kani::stub(alloc::fmt::format, stub_format)]
fn v3_auth_wire_md5() {
    let engine: [u8; 5] = kani::any();
    let key: [u8; 16] = kani::any();
    let user = *b"ab";
    let mut s = SnmpV3ClientSocket::new("127.0.0.1:161".to_string(), engine.to_vec(), "ab".to_string(), 0x81, &key, 0, &[], 0, 0, 0, 0).expect("socket");
    // boots/time arrive with an accepted message
    unsafe {
        rand::QUEUE[0] = 7;
        rand::QUEUE[1] = 9;
        rand::QUEUE[2] = MID_DRAW;
        rand::DRAWN = 0;
    }
    let rid0 = s.get_request_id().get_next();
    let mid0 = s.verif_msg_id().get_next();
    let boots: i64 = 0x0123;
    let time: i64 = 0x0102_0305;
    let rep = SnmpV3Message {
        msg_id: mid0,
        flag_auth: false,
        flag_priv: false,
        flag_report: false,
        usm: UsmParameters { engine_id: &engine, engine_boots: boots, engine_time: time, user_name: &user, auth_params: &[], privacy_params: &[] },
        data: MsgData::Plaintext(ScopedPdu { engine_id: &engine, pdu: SnmpPdu::Report(crate::snmp::report::SnmpReport(&OID3)) }),
    };
    let _ = rid0;
    assert!(s.unwrap_pdu(rep).is_some(), "report_accepted");
    // the request
    let out: [[u8; 20]; 4] = kani::any();
    reset_digests(out);
    let pdu = SnmpPdu::GetRequest(SnmpGet { request_id: RID, vars: vec![oid(&OID3)] });
    let mut buf = Buffer::default();
    s.push_pdu(pdu, &mut buf).expect("push_pdu");
    let mut mac = [0u8; 12];
    mac.copy_from_slice(&out[1][..12]);
    let (want, mac_off) = expected_plain(&engine, &user, boots, time, (MID_DRAW as i64) & 0x7fff_ffff, 0x01, Some(&mac));
    let d = buf.data();
    assert!(d.len() == want.n, "v3_message_length");
    // unrolled by macro: no harness loop, so the unwind bound is dictated by repository code only
    macro_rules! cmp8 {
        ($($k:expr),*) => { $( {
            let mut j = 0;
            while j < 8 {
                let i = $k * 8 + j;
                if i < want.n {
                    assert!(d[i] == want.b[i], "v3_message_octets");
                }
                j += 1;
            }
        } )* };
    }
    cmp8!(0, 1, 2, 3, 4, 5, 6, 7, 8, 9, 10, 11, 12, 13, 14, 15, 16, 17, 18, 19);
    unsafe {
        assert!(!OVERFLOW && NEXT == 2, "hmac_two_contexts");
        let c1 = &CTXS[0];
        assert!(c1.total == 64 + want.n, "hmac_covers_whole_message");
        let mut i = 0;
        while i < 8 {
            assert!(c1.data[i] == key[i] ^ 0x36 && c1.data[8 + i] == key[8 + i] ^ 0x36, "hmac_key_is_localized_key");
            i += 1;
        }
        macro_rules! cmpt8 {
            ($($k:expr),*) => { $( {
                let mut j = 0;
                while j < 8 {
                    let i = $k * 8 + j;
                    if i < want.n {
                        let w = if i >= mac_off && i < mac_off + 12 { 0 } else { want.b[i] };
                        assert!(c1.data[64 + i] == w, "hmac_input_is_message_with_zeroed_mac");
                    }
                    j += 1;
                }
            } )* };
        }
        cmpt8!(0, 1, 2, 3, 4, 5, 6, 7, 8, 9, 10, 11, 12, 13, 14, 15, 16, 17, 18, 19);
    }
    kani::cover!(true, "signed message emitted");
    core::mem::forget(s);
    core::mem::forget(buf);
}
