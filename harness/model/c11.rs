//! C11/C14 - privacy: what gufo_snmp FEEDS the cipher mode.
//!
//! Cut S9: the mode constructors (`KeyIvInit::new_from_slices`) and the bulk calls (`encrypt_padded_mut`,
//! `decrypt_padded_b2b_mut`, `decrypt_b2b`) of the `cipher` crate are replaced by recorders: they note key, IV, the
//! buffer slice and the length they are given and leave the data untouched (identity "cipher").  The properties are
//! about the key split, the IV / salt derivation, the plaintext (scoped PDU + padding) and independence from what the
//! private buffer held before.  That `cbc`, `cfb-mode`, `des` and `aes` implement DES-CBC / AES-128-CFB is outside the
//! claim.  (With the real mode code over toy block maps one encrypt call needed > 20 min of symbolic execution.)
use super::spec::*;
use super::util::*;
use crate::privacy::{PrivKey, SnmpPriv};
use crate::snmp::get::SnmpGet;
use crate::snmp::msg::v3::{ScopedPdu, UsmParameters};
use crate::snmp::msg::SnmpPdu;
use cipher::block_padding::{Padding, UnpadError};
use cipher::inout::PadError;
use cipher::{BlockDecryptMut, BlockEncryptMut, InnerIvInit, InvalidLength, KeyInit};

pub static mut REC_KEY: [u8; 16] = [0; 16];
pub static mut REC_KEY_LEN: usize = 0;
pub static mut REC_IV: [u8; 16] = [0; 16];
pub static mut REC_IV_LEN: usize = 0;
pub static mut REC_INIT_CALLS: usize = 0;
pub static mut REC_BUF_PTR: usize = 0;
pub static mut REC_BUF_LEN: usize = 0;
pub static mut REC_MSG_LEN: usize = 0;
pub static mut REC_ENC_CALLS: usize = 0;

/// Recorders with the shape of the provided trait methods `KeyInit::new_from_slice` and
/// `InnerIvInit::inner_iv_slice_init` (what the blanket `KeyIvInit::new_from_slices` is made of): note key / IV, then
/// do what the originals do.
pub trait RecKey: KeyInit + Sized {
    fn rec_new_from_slice(key: &[u8]) -> Result<Self, InvalidLength> {
        unsafe {
            REC_INIT_CALLS += 1;
            REC_KEY_LEN = key.len();
            let mut i = 0;
            while i < 16 {
                if i < key.len() {
                    REC_KEY[i] = key[i];
                }
                i += 1;
            }
        }
        if key.len() != <Self::KeySize as cipher::Unsigned>::USIZE {
            Err(InvalidLength)
        } else {
            Ok(Self::new(cipher::Key::<Self>::from_slice(key)))
        }
    }
}
impl<T: KeyInit + Sized> RecKey for T {}

pub trait RecIv: InnerIvInit + Sized {
    fn rec_inner_iv_slice_init(inner: Self::Inner, iv: &[u8]) -> Result<Self, InvalidLength> {
        unsafe {
            REC_IV_LEN = iv.len();
            let mut i = 0;
            while i < 16 {
                if i < iv.len() {
                    REC_IV[i] = iv[i];
                }
                i += 1;
            }
        }
        if iv.len() != <Self::IvSize as cipher::Unsigned>::USIZE {
            Err(InvalidLength)
        } else {
            Ok(Self::inner_iv_init(inner, cipher::Iv::<Self>::from_slice(iv)))
        }
    }
}
impl<T: InnerIvInit + Sized> RecIv for T {}

/// Recorder with the shape of the provided trait method `BlockEncryptMut::encrypt_padded_mut` (Self implicit).
pub trait RecEnc: BlockEncryptMut + Sized {
    fn rec_encrypt_padded_mut<P: Padding<Self::BlockSize>>(self, buf: &mut [u8], msg_len: usize) -> Result<&[u8], PadError> {
        unsafe {
            REC_ENC_CALLS += 1;
            REC_BUF_PTR = buf.as_ptr() as usize;
            REC_BUF_LEN = buf.len();
            REC_MSG_LEN = msg_len;
        }
        if msg_len > buf.len() {
            return Err(PadError);
        }
        Ok(&buf[..msg_len])
    }
}
impl<T: BlockEncryptMut + Sized> RecEnc for T {}

/// Reference serialisation of ScopedPdu { engine_id (5 octets), "", Get { rid (3 content octets), one 3-octet OID } }
pub fn ref_scoped(e: &[u8; 5], tag: u8, rid: [u8; 3], o: &[u8; 3]) -> [u8; 35] {
    [
        0x30, 33, 0x04, 5, e[0], e[1], e[2], e[3], e[4], 0x04, 0, tag, 22, 0x02, 3, rid[0], rid[1], rid[2], 0x02, 1, 0, 0x02, 1, 0, 0x30, 9, 0x30, 7, 0x06, 3,
        o[0], o[1], o[2], 0x05, 0,
    ]
}

fn mk_scoped<'a>(e: &'a [u8; 5], rid: i64, o: &'a [u8; 3]) -> ScopedPdu<'a> {
    ScopedPdu { engine_id: &e[..], pdu: SnmpPdu::GetRequest(SnmpGet { request_id: rid, vars: vec![oid(&o[..])] }) }
}

//@ C11,C14 quick timeout=1500 | DES (cut S9): as_localized(any 20-octet (SHA-1 sized) Kul, any salt seed), then TWO encrypts of a 35-octet scoped PDU with any boots/time: key == Kul[0..8], IV == Kul[8..16] xor salt, salt == boots||counter (counter +1 per message, wrapping), plaintext handed to CBC == scoped PDU || zero padding to 40 octets, both times
#[kani::proof]
#[kani::unwind(18)]
#[kani::stub(alloc::fmt::format, stub_format)]
#[kani::stub(cipher::KeyInit::new_from_slice, RecKey::rec_new_from_slice)]
#[kani::stub(cipher::InnerIvInit::inner_iv_slice_init, RecIv::rec_inner_iv_slice_init)]
#[kani::stub(cipher::BlockEncryptMut::encrypt_padded_mut, RecEnc::rec_encrypt_padded_mut)]
fn des_feed_twice() {
    let kul: [u8; 20] = kani::any(); // SHA-1 sized localized key: key = octets 0..8, pre-IV = octets 8..16
    let seed: u32 = kani::any();
    unsafe {
        rand::QUEUE[0] = seed as u64;
        rand::DRAWN = 0;
    }
    let mut pk = PrivKey::new(1).expect("des");
    pk.as_localized(&kul).expect("key");
    let e: [u8; 5] = kani::any();
    let o: [u8; 3] = kani::any();
    let boots: u32 = kani::any();
    let time: u32 = kani::any();
    let mut round = 0u32;
    while round < 2 {
        let rid3 = [0x12u8, 0x34, 0x56 + round as u8];
        let rid = ((rid3[0] as i64) << 16) | ((rid3[1] as i64) << 8) | rid3[2] as i64;
        let scoped = mk_scoped(&e, rid, &o);
        let plain = ref_scoped(&e, 0xa0, rid3, &o);
        let (ct, salt) = pk.encrypt(&scoped, boots, time).expect("encrypt");
        let counter = seed.wrapping_add(round);
        let want_salt = (((boots as u64) << 32) | counter as u64).to_be_bytes();
        assert!(salt.len() == 8, "des_salt_is_8_octets");
        let mut i = 0;
        while i < 8 {
            assert!(salt[i] == want_salt[i], "des_salt_is_boots_then_counter");
            i += 1;
        }
        unsafe {
            assert!(REC_INIT_CALLS == round as usize + 1 && REC_ENC_CALLS == round as usize + 1, "one_cipher_per_message");
            assert!(REC_KEY_LEN == 8 && REC_IV_LEN == 8, "des_key_iv_sizes");
            let mut i = 0;
            while i < 8 {
                assert!(REC_KEY[i] == kul[i], "des_key_is_first_8_octets_of_localized_key");
                assert!(REC_IV[i] == kul[8 + i] ^ want_salt[i], "des_iv_is_preiv_xor_salt");
                i += 1;
            }
            assert!(REC_MSG_LEN == 40 && REC_BUF_LEN == 40, "plaintext_is_pdu_padded_to_block_multiple");
            assert!(ct.as_ptr() as usize == REC_BUF_PTR && ct.len() == 40, "returned_ciphertext_is_cipher_output");
        }
        let mut b = 0;
        while b < 5 {
            let mut j = 0;
            while j < 8 {
                let i = b * 8 + j;
                let want = if i < 35 { plain[i] } else { 0 };
                assert!(ct[i] == want, "plaintext_is_scoped_pdu_then_zero_padding");
                j += 1;
            }
            b += 1;
        }
        core::mem::forget(scoped);
        round += 1;
    }
    kani::cover!(seed == u32::MAX, "salt counter wraps");
    core::mem::forget(pk);
}

//@ C11,C14 quick timeout=1500 | AES-128 (cut S9): as_localized(any 16-octet Kul, any 64-bit salt seed), TWO encrypts: key == Kul[0..16], IV == boots||time||salt, salt == 64-bit counter (+1 per message, wrapping), plaintext handed to CFB == scoped PDU || zero padding to 48 octets, both times
#[kani::proof]
#[kani::unwind(18)]
#[kani::stub(alloc::fmt::format, stub_format)]
#[kani::stub(cipher::KeyInit::new_from_slice, RecKey::rec_new_from_slice)]
#[kani::stub(cipher::InnerIvInit::inner_iv_slice_init, RecIv::rec_inner_iv_slice_init)]
#[kani::stub(cipher::BlockEncryptMut::encrypt_padded_mut, RecEnc::rec_encrypt_padded_mut)]
fn aes_feed_twice() {
    let kul: [u8; 20] = kani::any(); // SHA-1 sized localized key: only the first 16 octets are the AES key
    let seed: u64 = kani::any();
    unsafe {
        rand::QUEUE[0] = seed;
        rand::DRAWN = 0;
    }
    let mut pk = PrivKey::new(2).expect("aes");
    pk.as_localized(&kul).expect("key");
    let e: [u8; 5] = kani::any();
    let o: [u8; 3] = kani::any();
    let boots: u32 = kani::any();
    let time: u32 = kani::any();
    let mut round = 0u32;
    while round < 2 {
        let rid3 = [0x12u8, 0x34, 0x56 + round as u8];
        let rid = ((rid3[0] as i64) << 16) | ((rid3[1] as i64) << 8) | rid3[2] as i64;
        let scoped = mk_scoped(&e, rid, &o);
        let plain = ref_scoped(&e, 0xa0, rid3, &o);
        let (ct, salt) = pk.encrypt(&scoped, boots, time).expect("encrypt");
        let want_salt = seed.wrapping_add(round as u64).to_be_bytes();
        assert!(salt.len() == 8, "aes_salt_is_8_octets");
        let bt = (((boots as u64) << 32) | time as u64).to_be_bytes();
        let mut i = 0;
        while i < 8 {
            assert!(salt[i] == want_salt[i], "aes_salt_is_64_bit_counter");
            i += 1;
        }
        unsafe {
            assert!(REC_INIT_CALLS == round as usize + 1 && REC_ENC_CALLS == round as usize + 1, "one_cipher_per_message");
            assert!(REC_KEY_LEN == 16 && REC_IV_LEN == 16, "aes_key_iv_sizes");
            let mut i = 0;
            while i < 16 {
                assert!(REC_KEY[i] == kul[i], "aes_key_is_first_16_octets_of_localized_key");
                let want = if i < 8 { bt[i] } else { want_salt[i - 8] };
                assert!(REC_IV[i] == want, "aes_iv_is_boots_time_salt");
                i += 1;
            }
            assert!(REC_MSG_LEN == 48 && REC_BUF_LEN == 48, "plaintext_is_pdu_padded_to_block_multiple");
            assert!(ct.as_ptr() as usize == REC_BUF_PTR && ct.len() == 48, "returned_ciphertext_is_cipher_output");
        }
        let mut b = 0;
        while b < 3 {
            let mut j = 0;
            while j < 16 {
                let i = b * 16 + j;
                let want = if i < 35 { plain[i] } else { 0 };
                assert!(ct[i] == want, "plaintext_is_scoped_pdu_then_zero_padding");
                j += 1;
            }
            b += 1;
        }
        core::mem::forget(scoped);
        round += 1;
    }
    kani::cover!(seed == u64::MAX, "salt counter wraps");
    core::mem::forget(pk);
}

// ---- decrypt ------------------------------------------------------------------------
// The decoder of the decrypted scoped PDU is cut as well (S10: `ScopedPdu::try_from` replaced by a recorder returning
// a fixed PDU): with it the query did not finish in 1500 s.  The decoder is checked in the real-dependency profile.
pub static mut REC_PARSE_PTR: usize = 0;
pub static mut REC_PARSE_LEN: usize = 0;
pub static mut REC_PARSE_CALLS: usize = 0;
pub fn stub_scoped_try_from<'a>(i: &'a [u8]) -> crate::error::SnmpResult<ScopedPdu<'a>>
where
    'a: 'a,
{
    unsafe {
        REC_PARSE_CALLS += 1;
        REC_PARSE_PTR = i.as_ptr() as usize;
        REC_PARSE_LEN = i.len();
    }
    Ok(ScopedPdu { engine_id: &i[..0], pdu: SnmpPdu::Report(crate::snmp::report::SnmpReport(&i[..0])) })
}

pub static mut REC_IN_PTR: usize = 0;
pub static mut REC_IN_LEN: usize = 0;
pub static mut REC_OUT_LEN: usize = 0;
pub static mut REC_DEC_CALLS: usize = 0;

/// identity "decryption": records the slices and copies input to output (lengths are concrete in the harnesses)
pub trait RecDec: BlockDecryptMut + Sized {
    fn rec_decrypt_padded_b2b_mut<'a, P: Padding<Self::BlockSize>>(self, in_buf: &[u8], out_buf: &'a mut [u8]) -> Result<&'a [u8], UnpadError> {
        unsafe {
            REC_DEC_CALLS += 1;
            REC_IN_PTR = in_buf.as_ptr() as usize;
            REC_IN_LEN = in_buf.len();
            REC_OUT_LEN = out_buf.len();
        }
        if out_buf.len() < in_buf.len() || in_buf.len() % 8 != 0 {
            return Err(UnpadError);
        }
        out_buf[..in_buf.len()].copy_from_slice(in_buf);
        Ok(&out_buf[..in_buf.len()])
    }
}
impl<T: BlockDecryptMut + Sized> RecDec for T {}

pub trait RecStream: cipher::AsyncStreamCipher + Sized {
    fn rec_decrypt_b2b(self, in_buf: &[u8], out_buf: &mut [u8]) -> Result<(), cipher::inout::NotEqualError> {
        unsafe {
            REC_DEC_CALLS += 1;
            REC_IN_PTR = in_buf.as_ptr() as usize;
            REC_IN_LEN = in_buf.len();
            REC_OUT_LEN = out_buf.len();
        }
        if out_buf.len() != in_buf.len() {
            return Err(cipher::inout::NotEqualError);
        }
        out_buf.copy_from_slice(in_buf);
        Ok(())
    }
}
impl<T: cipher::AsyncStreamCipher + Sized> RecStream for T {}

macro_rules! decrypt_feed {
    ($name:ident, $alg:expr, $kl:expr, $n:expr) => {
        #[kani::proof]
        #[kani::unwind(18)]
        #[kani::stub(alloc::fmt::format, stub_format)]
        #[kani::stub(<f64 as core::str::FromStr>::from_str, stub_f64_from_str)]
        #[kani::stub(core::str::from_utf8, stub_from_utf8)]
        #[kani::stub(cipher::KeyInit::new_from_slice, RecKey::rec_new_from_slice)]
        #[kani::stub(cipher::InnerIvInit::inner_iv_slice_init, RecIv::rec_inner_iv_slice_init)]
        #[kani::stub(cipher::BlockDecryptMut::decrypt_padded_b2b_mut, RecDec::rec_decrypt_padded_b2b_mut)]
        #[kani::stub(cipher::AsyncStreamCipher::decrypt_b2b, RecStream::rec_decrypt_b2b)]
        #[kani::stub(<crate::snmp::msg::v3::ScopedPdu<'_> as core::convert::TryFrom<&[u8]>>::try_from, stub_scoped_try_from)]
        fn $name() {
            let kul: [u8; 20] = kani::any();
            unsafe {
                rand::QUEUE[0] = 0;
                rand::DRAWN = 0;
            }
            let mut pk = PrivKey::new($alg).expect("alg");
            pk.as_localized(&kul).expect("key");
            let e: [u8; 5] = kani::any();
            let o: [u8; 3] = kani::any();
            let rid3: [u8; 3] = kani::any();
            kani::assume(rid3[0] < 0x80 && rid3[0] > 0);
            // "ciphertext" (identity cipher): a GetResponse scoped PDU padded with zero octets to $n
            let plain = ref_scoped(&e, 0xa2, rid3, &o);
            let mut data = [0u8; $n];
            data[..35].copy_from_slice(&plain);
            let salt: [u8; 8] = kani::any();
            let boots: i64 = kani::any();
            let time: i64 = kani::any();
            let usm = UsmParameters { engine_id: &e, engine_boots: boots, engine_time: time, user_name: &[], auth_params: &[], privacy_params: &salt };
            let r = pk.decrypt(&data, &usm);
            unsafe {
                assert!(REC_DEC_CALLS == 1 && REC_IN_PTR == data.as_ptr() as usize && REC_IN_LEN == $n && REC_OUT_LEN == $n, "whole_ciphertext_decrypted_into_equal_sized_buffer");
                assert!(REC_KEY_LEN == $kl, "key_size");
                let mut i = 0;
                while i < $kl {
                    assert!(REC_KEY[i] == kul[i], "decrypt_key_is_localized_key_prefix");
                    i += 1;
                }
                if $alg == 1 {
                    let mut i = 0;
                    while i < 8 {
                        assert!(REC_IV[i] == kul[8 + i] ^ salt[i], "des_decrypt_iv_is_preiv_xor_salt");
                        i += 1;
                    }
                } else {
                    let bt = ((((boots as u32) as u64) << 32) | (time as u32) as u64).to_be_bytes();
                    let mut i = 0;
                    while i < 16 {
                        let want = if i < 8 { bt[i] } else { salt[i - 8] };
                        assert!(REC_IV[i] == want, "aes_decrypt_iv_is_boots_time_salt");
                        i += 1;
                    }
                }
            }
            assert!(r.is_ok(), "well_formed_ciphertext_rejected");
            unsafe {
                // the decoder is handed exactly the decrypted octets: $n of them, equal to the (identity) ciphertext
                assert!(REC_PARSE_CALLS == 1 && REC_PARSE_LEN == $n, "decoder_gets_whole_plaintext");
                let p = core::slice::from_raw_parts(REC_PARSE_PTR as *const u8, 8);
                let mut i = 0;
                while i < 8 {
                    assert!(p[i] == data[i], "decoder_gets_decrypted_octets");
                    i += 1;
                }
            }
            kani::cover!(true, "decrypted");
            core::mem::forget(r);
            core::mem::forget(pk);
        }
    };
}
//@ C11 quick timeout=1500 | DES decrypt (cut S9, identity cipher): 40-octet msgData holding a GetResponse scoped PDU + padding, any salt/boots/time: key/IV handed to CBC are Kul[0..8] and Kul[8..16] xor salt; the whole ciphertext is decrypted into an equal-sized buffer; the decoder is handed exactly the decrypted octets
decrypt_feed!(des_decrypt_feed, 1u8, 8, 40);
//@ C11 quick timeout=1500 | AES decrypt (cut S9): 48-octet msgData: key Kul[0..16], IV == boots||time||salt; the decoder is handed exactly the decrypted octets
decrypt_feed!(aes_decrypt_feed, 2u8, 16, 48);

//@ C01,C11 quick timeout=900 | AES/DES decrypt with msgPrivacyParameters of ANY length 0..12: returns Ok or Err, never panics (a salt that is not 8 octets must be refused)
#[kani::proof]
#[kani::unwind(18)]
#[kani::stub(alloc::fmt::format, stub_format)]
#[kani::stub(<f64 as core::str::FromStr>::from_str, stub_f64_from_str)]
#[kani::stub(core::str::from_utf8, stub_from_utf8)]
#[kani::stub(cipher::KeyInit::new_from_slice, RecKey::rec_new_from_slice)]
#[kani::stub(cipher::InnerIvInit::inner_iv_slice_init, RecIv::rec_inner_iv_slice_init)]
#[kani::stub(cipher::BlockDecryptMut::decrypt_padded_b2b_mut, RecDec::rec_decrypt_padded_b2b_mut)]
#[kani::stub(cipher::AsyncStreamCipher::decrypt_b2b, RecStream::rec_decrypt_b2b)]
#[kani::stub(<crate::snmp::msg::v3::ScopedPdu<'_> as core::convert::TryFrom<&[u8]>>::try_from, stub_scoped_try_from)]
fn decrypt_any_salt_length() {
    let kul: [u8; 16] = kani::any();
    let aes: bool = kani::any();
    let mut pk = PrivKey::new(if aes { 2 } else { 1 }).expect("alg");
    pk.as_localized(&kul).expect("key");
    let salt: [u8; 12] = kani::any();
    let sl: usize = kani::any();
    kani::assume(sl <= 12);
    let data = [0x30u8, 6, 0x04, 0, 0x04, 0, 0xa8, 0];
    let usm = UsmParameters { engine_id: &[], engine_boots: kani::any(), engine_time: kani::any(), user_name: &[], auth_params: &[], privacy_params: &salt[..sl] };
    let r = pk.decrypt(&data, &usm);
    if sl != 8 {
        assert!(r.is_err(), "salt_of_wrong_length_accepted");
    }
    kani::cover!(r.is_ok(), "decrypted");
    kani::cover!(sl > 8 && aes, "long salt on aes");
    core::mem::forget(r);
    core::mem::forget(pk);
}

//@ C11,C14 quick timeout=1500 | DES (cut S9): one encrypt of a scoped PDU of 33 octets (length = 1 mod 8, engine id of 3 octets): plaintext handed to CBC == the 33 PDU octets followed by 7 zero octets (40), key/IV/salt as specified
#[kani::proof]
#[kani::unwind(18)]
#[kani::stub(alloc::fmt::format, stub_format)]
#[kani::stub(cipher::KeyInit::new_from_slice, RecKey::rec_new_from_slice)]
#[kani::stub(cipher::InnerIvInit::inner_iv_slice_init, RecIv::rec_inner_iv_slice_init)]
#[kani::stub(cipher::BlockEncryptMut::encrypt_padded_mut, RecEnc::rec_encrypt_padded_mut)]
fn des_feed_len33() {
    let kul: [u8; 16] = kani::any();
    let seed: u32 = kani::any();
    unsafe {
        rand::QUEUE[0] = seed as u64;
        rand::DRAWN = 0;
    }
    let mut pk = PrivKey::new(1).expect("des");
    pk.as_localized(&kul).expect("key");
    let e: [u8; 3] = kani::any();
    let o: [u8; 3] = kani::any();
    let rid3 = [0x12u8, 0x34, 0x56];
    let scoped = ScopedPdu { engine_id: &e[..], pdu: SnmpPdu::GetRequest(SnmpGet { request_id: 0x123456, vars: vec![oid(&o[..])] }) };
    let plain: [u8; 33] = [
        0x30, 31, 0x04, 3, e[0], e[1], e[2], 0x04, 0, 0xa0, 22, 0x02, 3, rid3[0], rid3[1], rid3[2], 0x02, 1, 0, 0x02, 1, 0, 0x30, 9, 0x30, 7, 0x06, 3, o[0], o[1], o[2],
        0x05, 0,
    ];
    let (ct, salt) = pk.encrypt(&scoped, kani::any(), kani::any()).expect("encrypt");
    assert!(salt.len() == 8, "des_salt_is_8_octets");
    unsafe {
        assert!(REC_MSG_LEN == 40 && REC_BUF_LEN == 40, "plaintext_is_pdu_padded_to_block_multiple");
    }
    assert!(ct.len() == 40, "ciphertext_length");
    let mut b = 0;
    while b < 5 {
        let mut j = 0;
        while j < 8 {
            let i = b * 8 + j;
            let want = if i < 33 { plain[i] } else { 0 };
            assert!(ct[i] == want, "plaintext_is_scoped_pdu_then_zero_padding");
            j += 1;
        }
        b += 1;
    }
    kani::cover!(true, "encrypted");
    core::mem::forget(scoped);
    core::mem::forget(pk);
}
