use super::spec::*;
use super::util::*;
use crate::ber::SnmpOid;
use crate::error::*;
use crate::snmp::getresponse::{SnmpGetResponse, SnmpVar};
use crate::snmp::msg::SnmpPdu;
use crate::snmp::op::{OpGet, OpGetMany, PyOp};
use crate::snmp::value::SnmpValue;
use pyo3::{Item, Leaf, Obj, IntoPyObject};

#[kani::proof]
#[kani::unwind(18)]
#[kani::stub(alloc::fmt::format, stub_format)]
fn a_decode_only() {
    let c: [u8; 4] = kani::any();
    let mut tlv = [0u8; 6];
    let n = fill_tlv(K_INT, c, &mut tlv);
    let r = SnmpValue::from_ber(&tlv[..n]);
    assert!(r.is_ok());
    core::mem::forget(r);
}
#[kani::proof]
#[kani::unwind(18)]
#[kani::stub(alloc::fmt::format, stub_format)]
#[kani::stub(<std::string::String as std::convert::TryFrom<&crate::ber::SnmpOid<'_>>>::try_from, stub_oid_to_string)]
fn b_value_into_py() {
    let c: [u8; 4] = kani::any();
    let mut tlv = [0u8; 6];
    let n = fill_tlv(K_INT, c, &mut tlv);
    let (_, value) = SnmpValue::from_ber(&tlv[..n]).unwrap();
    let r = (&value).into_pyobject(py());
    assert!(r.is_ok());
    core::mem::forget(r);
    core::mem::forget(value);
}
#[kani::proof]
#[kani::unwind(18)]
#[kani::stub(alloc::fmt::format, stub_format)]
#[kani::stub(<std::string::String as std::convert::TryFrom<&crate::ber::SnmpOid<'_>>>::try_from, stub_oid_to_string)]
fn c_direct_value_into_py() {
    let value = SnmpValue::Int(kani::any::<i64>().into());
    let r = (&value).into_pyobject(py());
    assert!(r.is_ok());
    core::mem::forget(r);
    core::mem::forget(value);
}
#[kani::proof]
#[kani::unwind(18)]
#[kani::stub(alloc::fmt::format, stub_format)]
#[kani::stub(<std::string::String as std::convert::TryFrom<&crate::ber::SnmpOid<'_>>>::try_from, stub_oid_to_string)]
fn d_direct_get() {
    let name: [u8; 3] = kani::any();
    let value = SnmpValue::Int(kani::any::<i64>().into());
    let pdu = SnmpPdu::GetResponse(SnmpGetResponse {
        request_id: kani::any(), error_status: 0, error_index: 0,
        vars: vec![SnmpVar { oid: oid(&name), value }],
    });
    let r = OpGet::to_python(&pdu, None, py());
    assert!(r.is_ok());
    core::mem::forget(r);
    core::mem::forget(pdu);
}
#[kani::proof]
#[kani::unwind(18)]
#[kani::stub(alloc::fmt::format, stub_format)]
#[kani::stub(<std::string::String as std::convert::TryFrom<&crate::ber::SnmpOid<'_>>>::try_from, stub_oid_to_string)]
fn e_direct_octets() {
    let c: [u8; 4] = kani::any();
    let value = SnmpValue::OctetString(crate::ber::SnmpOctetString(&c));
    let r = (&value).into_pyobject(py());
    assert!(r.is_ok());
    core::mem::forget(r);
    core::mem::forget(value);
}
#[kani::proof]
#[kani::unwind(18)]
#[kani::stub(alloc::fmt::format, stub_format)]
#[kani::stub(<std::string::String as std::convert::TryFrom<&crate::ber::SnmpOid<'_>>>::try_from, stub_oid_to_string)]
fn f_direct_oid() {
    let c: [u8; 4] = kani::any();
    let value = SnmpValue::Oid(oid(&c));
    let r = (&value).into_pyobject(py());
    assert!(r.is_ok());
    core::mem::forget(r);
    core::mem::forget(value);
}
#[kani::proof]
#[kani::unwind(18)]
#[kani::stub(alloc::fmt::format, stub_format)]
fn g_direct_ip() {
    let c: [u8; 4] = kani::any();
    let hdr = crate::ber::BerHeader { class: crate::ber::BerClass::Application, constructed: false, tag: 0, length: 4 };
    use crate::ber::BerDecoder;
    let ip = crate::ber::SnmpIpAddress::decode(&c, &hdr).unwrap();
    let r = (&ip).into_pyobject(py());
    assert!(r.is_ok());
    core::mem::forget(r);
}
#[kani::proof]
#[kani::unwind(18)]
fn h_stub_only() {
    let c: [u8; 4] = kani::any();
    let o = oid(&c);
    let r = stub_oid_to_string(&o);
    assert!(r.is_ok());
    core::mem::forget(r);
    core::mem::forget(o);
}
#[kani::proof]
#[kani::unwind(18)]
fn i_stub_drop() {
    let c: [u8; 4] = kani::any();
    let o = oid(&c);
    let r = stub_oid_to_string(&o);
    assert!(r.is_ok());
    core::mem::forget(o);
}
#[kani::proof]
#[kani::unwind(18)]
fn j_stub_blob() {
    let c: [u8; 4] = kani::any();
    let o = oid(&c);
    let r = stub_oid_to_string(&o).unwrap();
    let b = pyo3::Blob::new(r.as_bytes());
    assert!(b.len == 8);
    core::mem::forget(r);
    core::mem::forget(o);
}
#[kani::proof]
#[kani::unwind(18)]
fn k_enum_wrap() {
    let c: [u8; 4] = kani::any();
    let v = SnmpValue::Oid(oid(&c));
    if let SnmpValue::Oid(x) = &v {
        let r = stub_oid_to_string(x);
        assert!(r.is_ok());
        core::mem::forget(r);
    }
    core::mem::forget(v);
}
#[kani::proof]
#[kani::unwind(18)]
fn l_cow_only() {
    let c: [u8; 4] = kani::any();
    let o = oid(&c);
    let bx = Box::new(o);
    let r = stub_oid_to_string(&bx);
    assert!(r.is_ok());
    core::mem::forget(r);
    core::mem::forget(bx);
}
#[kani::proof]
#[kani::unwind(18)]
#[kani::stub(<std::string::String as std::convert::TryFrom<&crate::ber::SnmpOid<'_>>>::try_from, stub_oid_to_string)]
fn m_via_stub_attr() {
    let c: [u8; 4] = kani::any();
    let o = oid(&c);
    let r = String::try_from(&o);
    assert!(r.is_ok());
    core::mem::forget(r);
    core::mem::forget(o);
}
#[kani::proof]
#[kani::unwind(18)]
#[kani::stub(<std::string::String as std::convert::TryFrom<&crate::ber::SnmpOid<'_>>>::try_from, stub_oid_to_string)]
fn n_oid_into_py() {
    let c: [u8; 4] = kani::any();
    let o = oid(&c);
    let r = (&o).into_pyobject(py());
    assert!(r.is_ok());
    core::mem::forget(r);
    core::mem::forget(o);
}
#[kani::proof]
#[kani::unwind(18)]
#[kani::stub(alloc::fmt::format, stub_format)]
#[kani::stub(<std::string::String as std::convert::TryFrom<&crate::ber::SnmpOid<'_>>>::try_from, stub_oid_to_string)]
fn o_symbolic_kind_get() {
    let kind: u8 = kani::any();
    kani::assume(kind < N_KINDS);
    let c: [u8; 4] = kani::any();
    let mut tlv = [0u8; 6];
    let n = fill_tlv(kind, c, &mut tlv);
    let name: [u8; 3] = kani::any();
    let (_, value) = SnmpValue::from_ber(&tlv[..n]).expect("well-formed value decodes");
    let pdu = SnmpPdu::GetResponse(SnmpGetResponse {
        request_id: kani::any(), error_status: 0, error_index: 0,
        vars: vec![SnmpVar { oid: oid(&name), value }],
    });
    let r = OpGet::to_python(&pdu, None, py());
    if let Ok(o) = &r {
        let l = o.obj().leaf().expect("get returns a scalar object");
        assert!(kind == K_NULL || expected_leaf_matches(kind, c, &l), "get_value_as_encoded");
    }
    core::mem::forget(r);
    core::mem::forget(pdu);
}
pub fn stub_oid_const<'a, 'b>(value: &'a SnmpOid<'b>) -> Result<String, SnmpError>
where 'a: 'a, 'b: 'b,
{
    let v: Vec<u8> = vec![b'a'; 4];
    Ok(unsafe { String::from_utf8_unchecked(v) })
}
#[kani::proof]
#[kani::unwind(18)]
#[kani::stub(alloc::fmt::format, stub_format)]
#[kani::stub(<std::string::String as std::convert::TryFrom<&crate::ber::SnmpOid<'_>>>::try_from, stub_oid_const)]
fn p_direct_oid_conststub() {
    let c: [u8; 4] = kani::any();
    let value = SnmpValue::Oid(oid(&c));
    let r = (&value).into_pyobject(py());
    assert!(r.is_ok());
    core::mem::forget(r);
    core::mem::forget(value);
}
pub fn stub_oid_len<'a, 'b>(value: &'a SnmpOid<'b>) -> Result<String, SnmpError>
where 'a: 'a, 'b: 'b,
{
    let n = value.0.len();
    let mut v: Vec<u8> = vec![b'a'; 4];
    v[0] = b'a' + (n as u8 & 15);
    Ok(unsafe { String::from_utf8_unchecked(v) })
}
#[kani::proof]
#[kani::unwind(18)]
#[kani::stub(alloc::fmt::format, stub_format)]
#[kani::stub(<std::string::String as std::convert::TryFrom<&crate::ber::SnmpOid<'_>>>::try_from, stub_oid_len)]
fn q_direct_oid_lenstub() {
    let c: [u8; 4] = kani::any();
    let value = SnmpValue::Oid(oid(&c));
    let r = (&value).into_pyobject(py());
    assert!(r.is_ok());
    core::mem::forget(r);
    core::mem::forget(value);
}

use crate::socket::snmpsocket::SnmpSocket;
use crate::socket::SnmpV2cClientSocket;
#[kani::proof]
#[kani::unwind(12)]
#[kani::stub(alloc::fmt::format, stub_format)]
fn s1_new_only() {
    let s = SnmpV2cClientSocket::new("127.0.0.1:161".to_string(), "pub".to_string(), 0, 0, 0, 1_000_000_000);
    assert!(s.is_ok());
    core::mem::forget(s);
}
#[kani::proof]
#[kani::unwind(12)]
#[kani::stub(alloc::fmt::format, stub_format)]
fn s2_push_pdu_local() {
    let mut s = SnmpV2cClientSocket::new("127.0.0.1:161".to_string(), "pub".to_string(), 0, 0, 0, 1_000_000_000).unwrap();
    let x: u8 = kani::any();
    let c = [43u8, x & 0x7f, 0];
    let rid: i64 = kani::any();
    kani::assume(rid >= 0 && rid <= 0x7fff_ffff);
    let pdu = SnmpPdu::GetRequest(crate::snmp::get::SnmpGet { request_id: rid, vars: vec![oid(&c)] });
    let mut buf = crate::buf::Buffer::default();
    let r = s.push_pdu(pdu, &mut buf);
    assert!(r.is_ok());
    let d = buf.data();
    assert!(d[0] == 0x30);
    core::mem::forget(s);
    core::mem::forget(buf);
}
#[kani::proof]
#[kani::unwind(12)]
#[kani::stub(alloc::fmt::format, stub_format)]
fn s3_pool_only() {
    let mut h = crate::buf::get_buffer_pool().acquire();
    let b = h.as_mut();
    b.push_u8(1).unwrap();
    assert!(b.len() == 1);
    core::mem::forget(h);
}
#[kani::proof]
#[kani::unwind(12)]
#[kani::stub(alloc::fmt::format, stub_format)]
fn s4_push_pdu_rid4() {
    let mut s = SnmpV2cClientSocket::new("127.0.0.1:161".to_string(), "pub".to_string(), 0, 0, 0, 1_000_000_000).unwrap();
    let x: u8 = kani::any();
    let c = [43u8, x & 0x7f, 0];
    let rid: i64 = kani::any();
    kani::assume(rid >= 0x0080_0000 && rid <= 0x7fff_ffff);
    let pdu = SnmpPdu::GetRequest(crate::snmp::get::SnmpGet { request_id: rid, vars: vec![oid(&c)] });
    let mut buf = crate::buf::Buffer::default();
    let r = s.push_pdu(pdu, &mut buf);
    assert!(r.is_ok());
    let d = buf.data();
    assert!(d[0] == 0x30);
    core::mem::forget(s);
    core::mem::forget(buf);
}
#[kani::proof]
#[kani::unwind(12)]
#[kani::stub(alloc::fmt::format, stub_format)]
fn s5_push_pdu_concrete_rid() {
    let mut s = SnmpV2cClientSocket::new("127.0.0.1:161".to_string(), "pub".to_string(), 0, 0, 0, 1_000_000_000).unwrap();
    let x: u8 = kani::any();
    let c = [43u8, x & 0x7f, 0];
    let rid: i64 = 0x123456;
    let pdu = SnmpPdu::GetRequest(crate::snmp::get::SnmpGet { request_id: rid, vars: vec![oid(&c)] });
    let mut buf = crate::buf::Buffer::default();
    let r = s.push_pdu(pdu, &mut buf);
    assert!(r.is_ok());
    let d = buf.data();
    assert!(d[0] == 0x30);
    core::mem::forget(s);
    core::mem::forget(buf);
}
use crate::snmp::op::OpGet as OpGet2;
#[kani::proof]
#[kani::unwind(12)]
#[kani::stub(alloc::fmt::format, stub_format)]
#[kani::stub(<u32 as core::str::FromStr>::from_str, stub_u32_from_str_script)]
fn s6_from_python_push_local() {
    let mut s = SnmpV2cClientSocket::new("127.0.0.1:161".to_string(), "pub".to_string(), 0, 0, 0, 1_000_000_000).unwrap();
    let x: u8 = kani::any();
    script_oid_1_3_x(x);
    let pdu = <OpGet2 as PyOp<pyo3::pybacked::PyBackedStr>>::from_python(pyo3::pybacked::PyBackedStr::new("0.0.0"), 0x123456).unwrap();
    let mut buf = crate::buf::Buffer::default();
    let r = s.push_pdu(pdu, &mut buf);
    assert!(r.is_ok());
    let d = buf.data();
    assert!(d[0] == 0x30);
    core::mem::forget(s);
    core::mem::forget(buf);
}
#[kani::proof]
#[kani::unwind(12)]
#[kani::stub(alloc::fmt::format, stub_format)]
fn s7_send_inner() {
    let mut s = SnmpV2cClientSocket::new("127.0.0.1:161".to_string(), "pub".to_string(), 0, 0, 0, 1_000_000_000).unwrap();
    let x: u8 = kani::any();
    let c = [43u8, x & 0x7f, 0];
    let pdu = SnmpPdu::GetRequest(crate::snmp::get::SnmpGet { request_id: 0x123456, vars: vec![oid(&c)] });
    let r = s._send_inner(pdu);
    assert!(r.is_ok());
    assert!(s.get_io().tx_count == 1);
    core::mem::forget(s);
}
#[kani::proof]
#[kani::unwind(12)]
#[kani::stub(alloc::fmt::format, stub_format)]
#[kani::stub(<u32 as core::str::FromStr>::from_str, stub_u32_from_str_script)]
fn s8_send_get_noread() {
    unsafe { rand::QUEUE[0] = 0x123456; rand::DRAWN = 0; }
    let mut s = SnmpV2cClientSocket::new("127.0.0.1:161".to_string(), "pub".to_string(), 0, 0, 0, 1_000_000_000).unwrap();
    let x: u8 = kani::any();
    script_oid_1_3_x(x);
    let r = s.send_get(py(), pyo3::pybacked::PyBackedStr::new("0.0.0"));
    assert!(r.is_ok());
    assert!(s.get_io().tx_count == 1);
    core::mem::forget(s);
}
#[kani::proof]
#[kani::unwind(6)]
fn p1_pool_drop_reacquire() {
    {
        let mut h = crate::buf::get_buffer_pool().acquire();
        let b = h.as_mut();
        let n: usize = kani::any();
        b.skip(n);
        b.set_bookmark(3);
    }
    let mut h2 = crate::buf::get_buffer_pool().acquire();
    assert!(h2.as_mut().is_empty());
    core::mem::forget(h2);
}
#[kani::proof]
#[kani::unwind(6)]
fn p2_pool_drop_only() {
    let mut h = crate::buf::get_buffer_pool().acquire();
    let b = h.as_mut();
    let n: usize = kani::any();
    b.skip(n);
}
use super::c03::*;
#[kani::proof]
#[kani::unwind(6)]
#[kani::stub(alloc::fmt::format, stub_format)]
#[kani::stub(<crate::ber::SnmpOid<'_> as core::convert::TryFrom<&str>>::try_from, stub_oid_from_str)]
#[kani::stub(<crate::socket::v2c::SnmpV2cClientSocket as crate::socket::snmpsocket::SnmpSocket>::push_pdu, stub_push_pdu_v2c)]
#[kani::stub(core::fmt::write, stub_fmt_write)]
#[kani::stub(<std::io::Error as std::fmt::Display>::fmt, stub_ioerr_fmt)]
fn g1_send_get_stubpush() {
    unsafe { rand::QUEUE[0] = 5; rand::DRAWN = 0; }
    script_oids([[43, 6, 1, 0]; 3]);
    let mut s = SnmpV2cClientSocket::new("127.0.0.1:161".to_string(), "pub".to_string(), 0, 0, 0, 1_000_000_000).expect("socket");
    let r = s.send_get(py(), pyo3::pybacked::PyBackedStr::new("1.3.6"));
    assert!(r.is_ok());
    assert!(s.get_io().tx_count == 1);
    core::mem::forget(s);
    core::mem::forget(r);
}
#[kani::proof]
#[kani::unwind(6)]
#[kani::stub(alloc::fmt::format, stub_format)]
#[kani::stub(<crate::socket::v2c::SnmpV2cClientSocket as crate::socket::snmpsocket::SnmpSocket>::push_pdu, stub_push_pdu_v2c)]
#[kani::stub(core::fmt::write, stub_fmt_write)]
#[kani::stub(<std::io::Error as std::fmt::Display>::fmt, stub_ioerr_fmt)]
fn g3_send_inner_stubpush() {
    let mut s = SnmpV2cClientSocket::new("127.0.0.1:161".to_string(), "pub".to_string(), 0, 0, 0, 1_000_000_000).expect("socket");
    let c = [43u8, 6, 0];
    let pdu = SnmpPdu::GetRequest(crate::snmp::get::SnmpGet { request_id: 0x123456, vars: vec![oid(&c)] });
    let r = s._send_inner(pdu);
    assert!(r.is_ok());
    assert!(s.get_io().tx_count == 1);
    core::mem::forget(s);
    core::mem::forget(r);
}
#[kani::proof]
#[kani::unwind(6)]
#[kani::stub(alloc::fmt::format, stub_format)]
#[kani::stub(core::fmt::write, stub_fmt_write)]
#[kani::stub(<std::io::Error as std::fmt::Display>::fmt, stub_ioerr_fmt)]
#[kani::stub(<crate::ber::SnmpOid<'_> as core::convert::TryFrom<&str>>::try_from, stub_oid_from_str)]
#[kani::stub(<crate::socket::v2c::SnmpV2cClientSocket as crate::socket::snmpsocket::SnmpSocket>::push_pdu, stub_push_pdu_v2c)]
fn g4_manual_send() {
    unsafe { rand::QUEUE[0] = 5; rand::DRAWN = 0; }
    script_oids([[43, 6, 1, 0]; 3]);
    let mut s = SnmpV2cClientSocket::new("127.0.0.1:161".to_string(), "pub".to_string(), 0, 0, 0, 1_000_000_000).expect("socket");
    let rid = s.get_request_id().get_next();
    let pdu = <OpGet2 as PyOp<pyo3::pybacked::PyBackedStr>>::from_python(pyo3::pybacked::PyBackedStr::new("1.3.6"), rid).unwrap();
    let r = s._send_inner(pdu);
    assert!(r.is_ok());
    assert!(s.get_io().tx_count == 1);
    core::mem::forget(s);
    core::mem::forget(r);
}
macro_rules! gvar {
    ($name:ident, $body:expr) => {
        #[kani::proof]
        #[kani::unwind(6)]
        #[kani::stub(alloc::fmt::format, stub_format)]
        #[kani::stub(core::fmt::write, stub_fmt_write)]
        #[kani::stub(<std::io::Error as std::fmt::Display>::fmt, stub_ioerr_fmt)]
        #[kani::stub(<crate::ber::SnmpOid<'_> as core::convert::TryFrom<&str>>::try_from, stub_oid_from_str)]
        #[kani::stub(<crate::socket::v2c::SnmpV2cClientSocket as crate::socket::snmpsocket::SnmpSocket>::push_pdu, stub_push_pdu_v2c)]
        fn $name() {
            script_oids([[43, 6, 1, 0]; 3]);
            let mut s = SnmpV2cClientSocket::new("127.0.0.1:161".to_string(), "pub".to_string(), 0, 0, 0, 1_000_000_000).expect("socket");
            let pdu: SnmpPdu = $body;
            let r = s._send_inner(pdu);
            assert!(r.is_ok());
            assert!(s.get_io().tx_count == 1);
            core::mem::forget(s);
            core::mem::forget(r);
        }
    };
}
static ST_OID: [u8; 3] = [43, 6, 1];
gvar!(h1_from_python_const_rid, <OpGet2 as PyOp<pyo3::pybacked::PyBackedStr>>::from_python(pyo3::pybacked::PyBackedStr::new("1.3.6"), 5).unwrap());
gvar!(h2_manual_static_oid, SnmpPdu::GetRequest(crate::snmp::get::SnmpGet { request_id: 5, vars: vec![oid(&ST_OID)] }));
gvar!(h4_manual_stub_oid, SnmpPdu::GetRequest(crate::snmp::get::SnmpGet { request_id: 5, vars: vec![stub_oid_from_str("x").unwrap()] }));
fn mk_res_oid() -> Result<SnmpOid<'static>, SnmpError> {
    Ok(oid(&ST_OID))
}
gvar!(h6_result_static_oid, SnmpPdu::GetRequest(crate::snmp::get::SnmpGet { request_id: 5, vars: vec![mk_res_oid().unwrap()] }));
static mut MUT_OID: [u8; 3] = [43, 6, 1];
gvar!(h7_static_mut_oid, SnmpPdu::GetRequest(crate::snmp::get::SnmpGet { request_id: 5, vars: vec![oid(unsafe { &*core::ptr::addr_of!(MUT_OID) })] }));
gvar!(h8_static_mut_write, { unsafe { OID_POS += 1; } SnmpPdu::GetRequest(crate::snmp::get::SnmpGet { request_id: 5, vars: vec![oid(&ST_OID)] }) });
gvar!(h9_err_branch, { let r: Result<SnmpOid<'static>, SnmpError> = if unsafe { OID_POS } >= 3 { Err(SnmpError::InvalidData) } else { Ok(oid(&ST_OID)) }; SnmpPdu::GetRequest(crate::snmp::get::SnmpGet { request_id: 5, vars: vec![r.unwrap()] }) });
static mut LOCAL_CTR: usize = 0;
gvar!(h11_local_static_write, { unsafe { LOCAL_CTR = 7; } SnmpPdu::GetRequest(crate::snmp::get::SnmpGet { request_id: 5, vars: vec![oid(&ST_OID)] }) });
gvar!(h12_local_static_incr, { unsafe { LOCAL_CTR += 1; } SnmpPdu::GetRequest(crate::snmp::get::SnmpGet { request_id: 5, vars: vec![oid(&ST_OID)] }) });
gvar!(h13_wrapping_incr, { unsafe { LOCAL_CTR = LOCAL_CTR.wrapping_add(1); } SnmpPdu::GetRequest(crate::snmp::get::SnmpGet { request_id: 5, vars: vec![oid(&ST_OID)] }) });
