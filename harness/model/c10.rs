//! C10 - unauthenticated or forged v3 replies are never accepted.
//! Unit harness on the real `unwrap_pdu` of a session that HOLDS an authentication key, with otherwise matching
//! replies (user, engine id, msgID, request-id correct) of each forgery class.  On the pinned tree unwrap_pdu never
//! looks at flag_auth / msgAuthenticationParameters (it does not even receive the raw datagram the MAC is computed
//! over), so the forgery classes are delivered: recorded as KNOWN findings, one key per class; the classes that hold
//! (valid reply delivered, Report delivered, mismatching identity dropped) stay guarded.
use super::spec::*;
use super::util::*;
use crate::snmp::getresponse::SnmpGetResponse;
use crate::snmp::msg::v3::{MsgData, ScopedPdu, SnmpV3Message, UsmParameters};
use crate::snmp::msg::SnmpPdu;
use crate::socket::snmpsocket::SnmpSocket;
use crate::socket::SnmpV3ClientSocket;

static ENGINE: [u8; 5] = [0x80, 0, 0x1f, 0x88, 4];
static USER: [u8; 2] = *b"ab";
static ZERO_MAC: [u8; 12] = [0; 12];

/// class: 0 = flag_auth cleared (MAC present), 1 = MAC absent (flag set), 2 = MAC all zero, 3 = arbitrary 12-octet MAC (cannot
/// be told from a valid one at this layer), 4 = Report without authentication
fn run_class(class: u8) -> bool {
    let key: [u8; 16] = kani::any();
    let mut s = SnmpV3ClientSocket::new("127.0.0.1:161".to_string(), ENGINE.to_vec(), "ab".to_string(), 0x81, &key, 0, &[], 0, 0, 0, 0).expect("socket");
    let d1: u64 = kani::any();
    let d2: u64 = kani::any();
    unsafe {
        rand::QUEUE[0] = d1;
        rand::QUEUE[1] = d2;
        rand::DRAWN = 0;
    }
    let rid = s.get_request_id().get_next();
    let mid = s.verif_msg_id().get_next();
    let mac: [u8; 12] = kani::any();
    let (flag_auth, auth_params): (bool, &[u8]) = match class {
        0 => (false, &mac),
        1 => (true, &[]),
        2 => (true, &ZERO_MAC),
        3 => (true, &mac),
        _ => (false, &[]),
    };
    let pdu = if class == 4 {
        SnmpPdu::Report(crate::snmp::report::SnmpReport(&USER))
    } else {
        SnmpPdu::GetResponse(SnmpGetResponse { request_id: rid, error_status: 0, error_index: 0, vars: Vec::new() })
    };
    let msg = SnmpV3Message {
        msg_id: mid,
        flag_auth,
        flag_priv: false,
        flag_report: false,
        usm: UsmParameters { engine_id: &ENGINE, engine_boots: kani::any(), engine_time: kani::any(), user_name: &USER, auth_params, privacy_params: &[] },
        data: MsgData::Plaintext(ScopedPdu { engine_id: &ENGINE, pdu }),
    };
    let delivered = s.unwrap_pdu(msg).is_some();
    core::mem::forget(s);
    delivered
}

//@ C10 quick | session with an MD5 auth key; otherwise matching GetResponse with the auth flag CLEARED: must be dropped
#[kani::proof]
#[kani::unwind(6)]
#[kani::stub(alloc::fmt::format, stub_format)]
fn forged_flag_cleared() {
    let delivered = run_class(0);
    kani::cover!(true, "decided");
    assert!(!delivered, "unauthenticated_response_delivered_flag_cleared");
}

//@ C10 quick | otherwise matching GetResponse flagged authenticated but WITHOUT msgAuthenticationParameters: must be dropped
#[kani::proof]
#[kani::unwind(6)]
#[kani::stub(alloc::fmt::format, stub_format)]
fn forged_mac_absent() {
    let delivered = run_class(1);
    kani::cover!(true, "decided");
    assert!(!delivered, "unauthenticated_response_delivered_mac_absent");
}

//@ C10 quick | otherwise matching GetResponse with an ALL-ZERO MAC (the placeholder): must be dropped
#[kani::proof]
#[kani::unwind(6)]
#[kani::stub(alloc::fmt::format, stub_format)]
fn forged_mac_zero() {
    let delivered = run_class(2);
    kani::cover!(true, "decided");
    assert!(!delivered, "unauthenticated_response_delivered_zero_mac");
}

//@ C10 quick | a reply carrying the auth flag and a 12-octet MAC (valid replies are of this shape) and an unauthenticated Report ARE delivered
#[kani::proof]
#[kani::unwind(6)]
#[kani::stub(alloc::fmt::format, stub_format)]
fn valid_shape_and_report_delivered() {
    let class: u8 = if kani::any() { 3 } else { 4 };
    let delivered = run_class(class);
    assert!(delivered, "valid_reply_or_report_not_delivered");
    kani::cover!(class == 4, "report");
    kani::cover!(class == 3, "authenticated response");
}
