//! C07 - get / get_many results and SNMP exceptions map as documented (op layer, model pyo3).
//! Stubs: alloc::fmt::format (S1), String::try_from(&SnmpOid) -> injective rendering (S3').
use super::spec::*;
use super::util::*;
use crate::ber::SnmpOid;
use crate::error::*;
use crate::snmp::getresponse::{SnmpGetResponse, SnmpVar};
use crate::snmp::msg::SnmpPdu;
use crate::snmp::op::{OpGet, OpGetMany, PyOp};
use crate::snmp::report::SnmpReport;
use crate::snmp::value::SnmpValue;
use pyo3::exceptions::*;
use pyo3::{Item, Leaf, Obj};

macro_rules! get_one {
    ($name:ident, $kind:expr) => {
        #[kani::proof]
        #[kani::unwind(10)]
        #[kani::stub(alloc::fmt::format, stub_format)]
        #[kani::stub(<std::string::String as std::convert::TryFrom<&crate::ber::SnmpOid<'_>>>::try_from, stub_oid_to_string)]
        fn $name() {
            let kind: u8 = $kind;
            let c: [u8; 4] = kani::any();
            let mut tlv = [0u8; 6];
            let n = fill_tlv(kind, c, &mut tlv);
            let name: [u8; 3] = kani::any();
            let (_, value) = SnmpValue::from_ber(&tlv[..n]).expect("well-formed value decodes");
            let pdu = SnmpPdu::GetResponse(SnmpGetResponse {
                request_id: kani::any(),
                error_status: 0,
                error_index: 0,
                vars: vec![SnmpVar { oid: oid(&name), value }],
            });
            let r = OpGet::to_python(&pdu, None, py());
            match &r {
                Ok(o) => {
                    let l = o.obj().leaf().expect("get returns a scalar object");
                    if kind == K_NULL {
                        assert!(l == Leaf::None, "get_null_is_none");
                    } else {
                        assert!(is_data_kind(kind), "get_exception_value_returned_as_data");
                        assert!(expected_leaf_matches(kind, c, &l), "get_value_as_encoded");
                    }
                }
                Err(e) => {
                    assert!(!is_data_kind(kind) && kind != K_NULL, "get_data_value_raised");
                    assert!(e.is::<PyNoSuchInstance>(), "get_exception_value_is_nosuchinstance");
                    assert!(e.is_instance_of::<PySnmpError>(), "nosuchinstance_is_snmperror");
                }
            }
            assert!(model_ok(), "model_bound");
            kani::cover!(true, "completed");
            core::mem::forget(r);
            core::mem::forget(pdu);
        }
    };
}
//@ C07,C02 quick | OpGet::to_python, GetResponse with ONE varbind of kind bool: any content octets, any 3-octet name
get_one!(get_one_bool, 0);
//@ C07,C02 quick | OpGet::to_python, GetResponse with ONE varbind of kind int: any content octets, any 3-octet name
get_one!(get_one_int, 1);
//@ C07,C02 quick | OpGet::to_python, GetResponse with ONE varbind of kind null: any content octets, any 3-octet name
get_one!(get_one_null, 2);
//@ C07,C02 quick | OpGet::to_python, GetResponse with ONE varbind of kind octets: any content octets, any 3-octet name
get_one!(get_one_octets, 3);
//@ C07,C02 quick | OpGet::to_python, GetResponse with ONE varbind of kind oid: any content octets, any 3-octet name
get_one!(get_one_oid, 4);
//@ C07,C02 quick | OpGet::to_python, GetResponse with ONE varbind of kind objdesc: any content octets, any 3-octet name
get_one!(get_one_objdesc, 5);
//@ C07,C02 quick | OpGet::to_python, GetResponse with ONE varbind of kind real: any content octets, any 3-octet name
get_one!(get_one_real, 6);
//@ C07,C02 quick | OpGet::to_python, GetResponse with ONE varbind of kind ip: any content octets, any 3-octet name
get_one!(get_one_ip, 7);
//@ C07,C02 quick | OpGet::to_python, GetResponse with ONE varbind of kind c32: any content octets, any 3-octet name
get_one!(get_one_c32, 8);
//@ C07,C02 quick | OpGet::to_python, GetResponse with ONE varbind of kind g32: any content octets, any 3-octet name
get_one!(get_one_g32, 9);
//@ C07,C02 quick | OpGet::to_python, GetResponse with ONE varbind of kind tt: any content octets, any 3-octet name
get_one!(get_one_tt, 10);
//@ C07,C02 quick | OpGet::to_python, GetResponse with ONE varbind of kind opaque: any content octets, any 3-octet name
get_one!(get_one_opaque, 11);
//@ C07,C02 quick | OpGet::to_python, GetResponse with ONE varbind of kind c64: any content octets, any 3-octet name
get_one!(get_one_c64, 12);
//@ C07,C02 quick | OpGet::to_python, GetResponse with ONE varbind of kind u32: any content octets, any 3-octet name
get_one!(get_one_u32, 13);
//@ C07,C02 quick | OpGet::to_python, GetResponse with ONE varbind of kind nosuchobj: any content octets, any 3-octet name
get_one!(get_one_nosuchobj, 14);
//@ C07,C02 quick | OpGet::to_python, GetResponse with ONE varbind of kind nosuchinst: any content octets, any 3-octet name
get_one!(get_one_nosuchinst, 15);
//@ C07,C02 quick | OpGet::to_python, GetResponse with ONE varbind of kind eomv: any content octets, any 3-octet name
get_one!(get_one_eomv, 16);

//@ C07 quick | OpGet::to_python on GetResponse with 0 varbinds, with 2 varbinds, on Report and on request PDUs
#[kani::proof]
#[kani::unwind(6)]
#[kani::stub(alloc::fmt::format, stub_format)]
#[kani::stub(<std::string::String as std::convert::TryFrom<&crate::ber::SnmpOid<'_>>>::try_from, stub_oid_to_string)]
fn get_other_shapes() {
    let name: [u8; 3] = kani::any();
    let which: u8 = kani::any();
    kani::assume(which < 4);
    let pdu = match which {
        0 => SnmpPdu::GetResponse(SnmpGetResponse { request_id: kani::any(), error_status: kani::any(), error_index: kani::any(), vars: vec![] }),
        1 => SnmpPdu::GetResponse(SnmpGetResponse {
            request_id: kani::any(),
            error_status: 0,
            error_index: 0,
            vars: vec![
                SnmpVar { oid: oid(&name), value: SnmpValue::Int(kani::any::<i64>().into()) },
                SnmpVar { oid: oid(&name), value: SnmpValue::Null },
            ],
        }),
        2 => SnmpPdu::Report(SnmpReport(&name)),
        _ => SnmpPdu::GetRequest(crate::snmp::get::SnmpGet { request_id: kani::any(), vars: vec![] }),
    };
    let r = OpGet::to_python(&pdu, None, py());
    match which {
        0 => assert!(matches!(&r, Ok(o) if o.obj() == Obj::Leaf(Leaf::None)), "get_no_varbinds_is_none"),
        1 => assert!(matches!(&r, Err(e) if e.is_instance_of::<PySnmpError>()), "get_many_varbinds_is_snmperror"),
        2 => assert!(matches!(&r, Err(e) if e.is::<PySnmpAuthError>()), "get_report_is_autherror"),
        _ => assert!(matches!(&r, Err(e) if e.is_instance_of::<PySnmpError>()), "get_request_pdu_is_snmperror"),
    }
    kani::cover!(which == 2, "report");
    kani::cover!(which == 1, "two varbinds");
    core::mem::forget(r);
    core::mem::forget(pdu);
}

//@ C07 thorough timeout=5400 optional | OpGetMany::to_python on a GetResponse with TWO varbinds: any names of 3 octets (equal or different), each value any of {INTEGER, OCTET STRING, NULL, noSuchObject, noSuchInstance, endOfMibView}: the dict holds exactly the data-valued varbinds, keyed by name, a later duplicate replacing the earlier value
#[kani::proof]
#[kani::unwind(10)]
#[kani::stub(alloc::fmt::format, stub_format)]
#[kani::stub(<std::string::String as std::convert::TryFrom<&crate::ber::SnmpOid<'_>>>::try_from, stub_oid_to_string)]
fn getmany_two_varbinds() {
    let n0: [u8; 3] = kani::any();
    let n1: [u8; 3] = kani::any();
    let k0: u8 = kani::any();
    let k1: u8 = kani::any();
    kani::assume(k0 < V_N && k1 < V_N);
    let pdu = SnmpPdu::GetResponse(SnmpGetResponse {
        request_id: 1,
        error_status: 0,
        error_index: 0,
        vars: vec![SnmpVar { oid: oid(&n0), value: mk_value(k0, 10) }, SnmpVar { oid: oid(&n1), value: mk_value(k1, 11) }],
    });
    let r = OpGetMany::to_python(&pdu, None, py());
    let d0 = v_is_data(k0);
    let d1 = v_is_data(k1);
    let same = n0 == n1;
    match &r {
        Ok(o) => match o.obj() {
            Obj::Dict(s) => {
                let want_n = if d0 && d1 { if same { 1 } else { 2 } } else { (d0 as usize) + (d1 as usize) };
                assert!(s.n == want_n, "getmany_entry_count");
                if want_n >= 1 {
                    match s.items[0] {
                        Item::Pair(k, v) => {
                            let first_is_0 = d0;
                            let (kn, kk, kv) = if first_is_0 { (&n0, k0, 10) } else { (&n1, k1, 11) };
                            assert!(str_is_oid(&pyo3::leaf_at(k), &kn[..]), "getmany_key_is_varbind_name");
                            if d0 && d1 && same {
                                assert!(v_leaf_matches(k1, 11, &pyo3::leaf_at(v)), "getmany_later_duplicate_replaces");
                            } else {
                                assert!(v_leaf_matches(kk, kv, &pyo3::leaf_at(v)), "getmany_value_is_varbind_value");
                            }
                        }
                        _ => panic!("getmany_item_shape"),
                    }
                }
                if want_n == 2 {
                    match s.items[1] {
                        Item::Pair(k, v) => {
                            assert!(str_is_oid(&pyo3::leaf_at(k), &n1[..]), "getmany_second_key");
                            assert!(v_leaf_matches(k1, 11, &pyo3::leaf_at(v)), "getmany_second_value");
                        }
                        _ => panic!("getmany_item_shape"),
                    }
                }
                kani::cover!(want_n == 2, "two entries");
                kani::cover!(want_n == 0, "no data values");
                kani::cover!(d0 && d1 && same, "duplicate name");
            }
            _ => panic!("getmany_result_not_dict"),
        },
        Err(_) => panic!("getmany_raised_on_a_response"),
    }
    assert!(model_ok(), "model_bound");
    core::mem::forget(r);
    core::mem::forget(pdu);
}
