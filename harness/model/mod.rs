// Kani proof harnesses over the model-dependency profile (op, socket, USM auth/privacy layers).
#[path = "../common/spec.rs"]
pub mod spec;
pub mod util;
pub mod c07;
pub mod c06;
pub mod c03;
pub mod c04;
pub mod c18;
pub mod c12;
pub mod c11;
pub mod c09;
pub mod c10;
pub mod c03pdu;
