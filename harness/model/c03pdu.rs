//! C03 (PDU level; model pyo3 because Op::from_python returns PyResult - real pyo3 error paths make kani-compiler ICE) - the PDU built by the real Op::from_python and serialised by the real
//! SnmpPdu::push_ber into a local buffer == independent reference encoding: PDU type, request-id, error fields /
//! non-repeaters / max-repetitions, OIDs in the requested order each bound to NULL.  Request-id and
//! max-repetitions widths are concrete per query; OID contents symbolic.
use super::spec::*;
use crate::ber::{BerEncoder, SnmpOid};
use crate::buf::Buffer;
use crate::snmp::get::SnmpGet;
use crate::snmp::getbulk::SnmpGetBulk;
use crate::snmp::msg::SnmpPdu;
use crate::snmp::op::{OpGetBulk, OpGetNext, OpRefresh, PyOp};
use std::borrow::Cow;

fn expect_eq(buf: &Buffer, want: &W) {
    let d = buf.data();
    assert!(d.len() == want.n, "pdu_length");
    macro_rules! cmp8 {
        ($($k:expr),*) => { $( {
            let mut j = 0;
            while j < 8 {
                let i = $k * 8 + j;
                if i < want.n {
                    assert!(d[i] == want.b[i], "pdu_octets");
                }
                j += 1;
            }
        } )* };
    }
    cmp8!(0, 1, 2, 3, 4, 5, 6, 7);
}

fn varbind(o: &[u8]) -> W {
    let mut vb = W::new();
    vb.octets(0x06, o);
    vb.bytes(&[0x05, 0]);
    let mut w = W::new();
    w.tlv(0x30, &vb);
    w
}

//@ C03 thorough timeout=1800 optional | (through pyo3 model, 18 GB) Get PDU with THREE OIDs (3 symbolic content octets each) in a given order: serialised in that order, each bound to NULL, error fields zero, tag a0
#[kani::proof]
#[kani::unwind(10)]
#[kani::stub(alloc::fmt::format, stub_format)]
fn pdu_get_three_oids_in_order() {
    let a: [u8; 3] = kani::any();
    let b: [u8; 3] = kani::any();
    let c: [u8; 3] = kani::any();
    let pdu = SnmpPdu::GetRequest(SnmpGet {
        request_id: 0x0102,
        vars: vec![SnmpOid(Cow::Borrowed(&a[..])), SnmpOid(Cow::Borrowed(&b[..])), SnmpOid(Cow::Borrowed(&c[..]))],
    });
    let mut buf = Buffer::default();
    pdu.push_ber(&mut buf).expect("fits");
    let mut vbs = W::new();
    vbs.append(&varbind(&a));
    vbs.append(&varbind(&b));
    vbs.append(&varbind(&c));
    let mut body = W::new();
    body.int(0x0102);
    body.int(0);
    body.int(0);
    body.tlv(0x30, &vbs);
    let mut want = W::new();
    want.tlv(0xa0, &body);
    expect_eq(&buf, &want);
    kani::cover!(a[0] != b[0] && b[0] != c[0], "three different oids");
    core::mem::forget(buf);
    core::mem::forget(pdu);
}

macro_rules! pdu_getbulk {
    ($name:ident, $mr:expr) => {
        #[kani::proof]
        #[kani::unwind(10)]
        #[kani::stub(alloc::fmt::format, stub_format)]
        fn $name() {
            let a: [u8; 3] = kani::any();
            let pdu = <OpGetBulk as PyOp<(SnmpOid, i64)>>::from_python((SnmpOid(Cow::Borrowed(&a[..])), $mr), 0x7f).ok().expect("pdu");
            let mut buf = Buffer::default();
            pdu.push_ber(&mut buf).expect("fits");
            let mut vbs = W::new();
            vbs.append(&varbind(&a));
            let mut body = W::new();
            body.int(0x7f);
            body.int(0); // non-repeaters
            body.int($mr); // max-repetitions as requested
            body.tlv(0x30, &vbs);
            let mut want = W::new();
            want.tlv(0xa5, &body);
            expect_eq(&buf, &want);
            kani::cover!(true, "encoded");
            core::mem::forget(buf);
            core::mem::forget(pdu);
        }
    };
}
//@ C03 thorough timeout=1800 optional | (18 GB) GetBulk via OpGetBulk::from_python(oid, 20): tag a5, non-repeaters 0, max-repetitions 20, the OID bound to NULL
pdu_getbulk!(pdu_getbulk_20, 20i64);
//@ C03 thorough timeout=1800 optional | GetBulk with max-repetitions 2^31-1 (largest allowed, 4 content octets)
pdu_getbulk!(pdu_getbulk_max, 0x7fff_ffffi64);
//@ C03 thorough timeout=1800 optional | GetBulk with max-repetitions 128 (needs a leading zero octet)
pdu_getbulk!(pdu_getbulk_128, 128i64);

//@ C03 thorough timeout=1800 optional | (18 GB) GetNext via OpGetNext::from_python: tag a1, one OID (3 symbolic octets) bound to NULL, error fields zero
#[kani::proof]
#[kani::unwind(10)]
#[kani::stub(alloc::fmt::format, stub_format)]
fn pdu_getnext() {
    let a: [u8; 3] = kani::any();
    let pdu = <OpGetNext as PyOp<SnmpOid>>::from_python(SnmpOid(Cow::Borrowed(&a[..])), 5).ok().expect("pdu");
    let mut buf = Buffer::default();
    pdu.push_ber(&mut buf).expect("fits");
    let mut vbs = W::new();
    vbs.append(&varbind(&a));
    let mut body = W::new();
    body.int(5);
    body.int(0);
    body.int(0);
    body.tlv(0x30, &vbs);
    let mut want = W::new();
    want.tlv(0xa1, &body);
    expect_eq(&buf, &want);
    kani::cover!(true, "encoded");
    core::mem::forget(buf);
    core::mem::forget(pdu);
}

//@ C03,C13 thorough timeout=1800 optional | (18 GB) refresh via OpRefresh::from_python: a Get PDU with an EMPTY varbind list (the engine-discovery probe)
#[kani::proof]
#[kani::unwind(10)]
#[kani::stub(alloc::fmt::format, stub_format)]
fn pdu_refresh() {
    let r = <OpRefresh as PyOp<()>>::from_python((), 6).ok().expect("pdu");
    let mut buf2 = Buffer::default();
    r.push_ber(&mut buf2).expect("fits");
    let mut body2 = W::new();
    body2.int(6);
    body2.int(0);
    body2.int(0);
    body2.tlv(0x30, &W::new());
    let mut want2 = W::new();
    want2.tlv(0xa0, &body2);
    expect_eq(&buf2, &want2);
    kani::cover!(true, "encoded");
    core::mem::forget(buf2);
    core::mem::forget(r);
}


//@ C03 quick | Op::from_python fills the PDU exactly as asked: OpGetNext -> GetNextRequest{request_id, [oid]}; OpGetBulk -> GetBulkRequest{request_id, non_repeaters 0, max_repetitions as given (any i64), [oid]}; OpRefresh -> GetRequest{request_id, []} - for any request-id and any 3-octet OID
#[kani::proof]
#[kani::unwind(6)]
#[kani::stub(alloc::fmt::format, stub_format)]
fn from_python_fields() {
    let a: [u8; 3] = kani::any();
    let rid: i64 = kani::any();
    let mr: i64 = kani::any();
    match <OpGetNext as PyOp<SnmpOid>>::from_python(SnmpOid(Cow::Borrowed(&a[..])), rid).ok().expect("pdu") {
        SnmpPdu::GetNextRequest(g) => {
            assert!(g.request_id == rid && g.vars.len() == 1 && g.vars[0].0.as_ptr() == a.as_ptr() && g.vars[0].0.len() == 3, "getnext_pdu_fields");
            core::mem::forget(g);
        }
        _ => panic!("getnext_pdu_kind"),
    }
    match <OpGetBulk as PyOp<(SnmpOid, i64)>>::from_python((SnmpOid(Cow::Borrowed(&a[..])), mr), rid).ok().expect("pdu") {
        SnmpPdu::GetBulkRequest(g) => {
            assert!(g.request_id == rid && g.non_repeaters == 0 && g.max_repetitions == mr, "getbulk_pdu_fields");
            assert!(g.vars.len() == 1 && g.vars[0].0.as_ptr() == a.as_ptr(), "getbulk_pdu_oid");
            core::mem::forget(g);
        }
        _ => panic!("getbulk_pdu_kind"),
    }
    match <OpRefresh as PyOp<()>>::from_python((), rid).ok().expect("pdu") {
        SnmpPdu::GetRequest(g) => {
            assert!(g.request_id == rid && g.vars.is_empty(), "refresh_pdu_fields");
            core::mem::forget(g);
        }
        _ => panic!("refresh_pdu_kind"),
    }
    kani::cover!(mr > 65535, "large max-repetitions");
}
