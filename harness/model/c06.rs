//! C05/C06 - walk step lemmas on the real GetIter / OpGetNext / OpGetBulk (model pyo3).
//! One step from an ARBITRARY reachable iterator state (start S = 1.3.x with symbolic x, next = S or any OID with
//! prefix S) and ONE arbitrary reply.  Stubs: fmt::format (S1), String::try_from(&SnmpOid) (S3'),
//! u32::from_str scripted (arcs of the base OID are symbolic without running the text tokenizer).
use super::spec::*;
use super::util::*;
use crate::ber::SnmpOid;
use crate::error::*;
use crate::snmp::getresponse::{SnmpGetResponse, SnmpVar};
use crate::snmp::msg::SnmpPdu;
use crate::snmp::op::{GetIter, OpGetBulk, OpGetNext, PyOp};
use crate::snmp::value::SnmpValue;
use pyo3::exceptions::*;
use pyo3::{leaf_at, Item, Leaf, Obj};

/// An OID of 1..=4 content octets taken from `b`.
fn oid_of<'a>(b: &'a [u8; 4], n: usize) -> SnmpOid<'a> {
    oid(&b[..n])
}

/// Build an iterator with start = [43, x] and (optionally) advance it to `next` through the real set_next_oid.
fn mk_iter(x: u8, advance: bool, next: &[u8; 4], next_n: usize) -> GetIter {
    script_oid_1_3_x(x);
    let mut it = GetIter::new("0.0.0", Some(2)).expect("valid base oid");
    if advance {
        let ok = it.set_next_oid(&oid_of(next, next_n));
        kani::assume(ok); // representation invariant: next_oid has prefix start_oid
    }
    it
}

//@ C05,C06 quick | getnext step: any state (start 1.3.x, next = start or any in-subtree OID <= 4 octets), reply of ONE varbind: any OID of 1..4 octets, value in {INTEGER, OCTET STRING, NULL, noSuchObject, noSuchInstance, endOfMibView}
#[kani::proof]
#[kani::unwind(7)]
#[kani::stub(alloc::fmt::format, stub_format)]
#[kani::stub(<std::string::String as std::convert::TryFrom<&crate::ber::SnmpOid<'_>>>::try_from, stub_oid_to_string)]
#[kani::stub(<u32 as core::str::FromStr>::from_str, stub_u32_from_str_script)]
#[kani::stub(crate::ber::objectid::SnmpOid::precedes, stub_precedes)]
fn getnext_step_one() {
    let x: u8 = kani::any();
    kani::assume(x < 128);
    let start = [43u8, x];
    let nb: [u8; 4] = kani::any();
    let nn: usize = kani::any();
    kani::assume(nn >= 1 && nn <= 4);
    let advance: bool = kani::any();
    let mut it = mk_iter(x, advance, &nb, nn);
    let cur: &[u8] = if advance { &nb[..nn] } else { &start };
    // the reply
    let rb: [u8; 4] = kani::any();
    let rn: usize = kani::any();
    kani::assume(rn >= 1 && rn <= 4);
    let kind: u8 = kani::any();
    kani::assume(kind < V_N);
    let n: i64 = kani::any();
    let pdu = SnmpPdu::GetResponse(SnmpGetResponse {
        request_id: 0,
        error_status: 0,
        error_index: 0,
        vars: vec![SnmpVar { oid: oid_of(&rb, rn), value: mk_value(kind, n) }],
    });
    let r = OpGetNext::to_python(&pdu, Some(&mut it), py());
    let in_subtree = is_prefix(&start, &rb[..rn]);
    let after = it.get_next_oid();
    match &r {
        Ok(o) => {
            // yielded: exactly the varbind, only if in the subtree, a data value, and strictly after the current position
            assert!(in_subtree, "getnext_yield_outside_subtree");
            assert!(v_is_data(kind), "getnext_yield_of_non_data_value");
            match o.obj() {
                Obj::Pair(a, b) => {
                    assert!(str_is_oid(&leaf_at(a), &rb[..rn]), "getnext_yield_oid_is_reply_oid");
                    assert!(v_leaf_matches(kind, n, &leaf_at(b)), "getnext_yield_value_is_reply_value");
                }
                _ => panic!("getnext_yield_not_a_pair"),
            }
            assert!(&after.0[..] == &rb[..rn], "getnext_followup_is_last_accepted");
            assert!(arcs_less(cur, &rb[..rn]), "getnext_yield_not_increasing");
            kani::cover!(true, "yielded");
        }
        Err(e) => {
            assert!(e.is::<PyStopAsyncIteration>(), "getnext_one_varbind_error_not_stop");
            // stop only for a reason the property lists
            assert!(!in_subtree || !v_is_data(kind) || !arcs_less(cur, &rb[..rn]), "getnext_stopped_on_valid_next_entry");
            kani::cover!(!in_subtree, "stopped: left subtree");
            kani::cover!(in_subtree && kind == V_EOMV, "stopped: endOfMibView");
        }
    }
    assert!(model_ok(), "model_bound");
    core::mem::forget(r);
    core::mem::forget(pdu);
    core::mem::forget(it);
    core::mem::forget(after);
}

//@ C05,C06 quick | getnext step: empty reply -> stop; two varbinds -> SnmpError; Report -> SnmpAuthError; no iterator -> ValueError
#[kani::proof]
#[kani::unwind(7)]
#[kani::stub(alloc::fmt::format, stub_format)]
#[kani::stub(<std::string::String as std::convert::TryFrom<&crate::ber::SnmpOid<'_>>>::try_from, stub_oid_to_string)]
#[kani::stub(<u32 as core::str::FromStr>::from_str, stub_u32_from_str_script)]
#[kani::stub(crate::ber::objectid::SnmpOid::precedes, stub_precedes)]
fn getnext_step_shapes() {
    let x: u8 = kani::any();
    kani::assume(x < 128);
    let nb = [43u8, x, 1, 0];
    let mut it = mk_iter(x, false, &nb, 2);
    let which: u8 = kani::any();
    kani::assume(which < 3);
    let rb: [u8; 4] = kani::any();
    let pdu = match which {
        0 => SnmpPdu::GetResponse(SnmpGetResponse { request_id: 0, error_status: kani::any(), error_index: kani::any(), vars: vec![] }),
        1 => SnmpPdu::GetResponse(SnmpGetResponse {
            request_id: 0,
            error_status: 0,
            error_index: 0,
            vars: vec![
                SnmpVar { oid: oid_of(&rb, 3), value: mk_value(V_INT, 1) },
                SnmpVar { oid: oid_of(&rb, 4), value: mk_value(V_INT, 2) },
            ],
        }),
        _ => SnmpPdu::Report(crate::snmp::report::SnmpReport(&rb)),
    };
    let r = OpGetNext::to_python(&pdu, Some(&mut it), py());
    match which {
        0 => assert!(matches!(&r, Err(e) if e.is::<PyStopAsyncIteration>()), "getnext_empty_reply_stops"),
        1 => assert!(matches!(&r, Err(e) if e.is_instance_of::<PySnmpError>()), "getnext_two_varbinds_is_snmperror"),
        _ => assert!(matches!(&r, Err(e) if e.is::<PySnmpAuthError>()), "getnext_report_is_autherror"),
    }
    let after = it.get_next_oid();
    assert!(&after.0[..] == &nb[..2], "getnext_state_unchanged_on_non_yield");
    let r2 = OpGetNext::to_python(&pdu, None, py());
    assert!(matches!(&r2, Err(e) if e.is::<PyValueError>()), "getnext_without_iterator_is_valueerror");
    kani::cover!(which == 1, "two varbinds");
    kani::cover!(which == 2, "report");
    core::mem::forget(r);
    core::mem::forget(r2);
    core::mem::forget(pdu);
    core::mem::forget(it);
    core::mem::forget(after);
}

macro_rules! getbulk_step {
    (@vars 1, $rb:ident, $rn:ident, $kinds:ident) => {
        vec![SnmpVar { oid: oid(&$rb[0][..$rn[0]]), value: mk_value($kinds[0], 0) }]
    };
    (@vars 2, $rb:ident, $rn:ident, $kinds:ident) => {
        vec![
            SnmpVar { oid: oid(&$rb[0][..$rn[0]]), value: mk_value($kinds[0], 0) },
            SnmpVar { oid: oid(&$rb[1][..$rn[1]]), value: mk_value($kinds[1], 1) },
        ]
    };
    (@vars 3, $rb:ident, $rn:ident, $kinds:ident) => {
        vec![
            SnmpVar { oid: oid(&$rb[0][..$rn[0]]), value: mk_value($kinds[0], 0) },
            SnmpVar { oid: oid(&$rb[1][..$rn[1]]), value: mk_value($kinds[1], 1) },
            SnmpVar { oid: oid(&$rb[2][..$rn[2]]), value: mk_value($kinds[2], 2) },
        ]
    };
    ($name:ident, $k:tt) => {
        #[kani::proof]
        #[kani::unwind(5)]
        #[kani::stub(alloc::fmt::format, stub_format)]
        #[kani::stub(<std::string::String as std::convert::TryFrom<&crate::ber::SnmpOid<'_>>>::try_from, stub_oid_to_string)]
        #[kani::stub(<u32 as core::str::FromStr>::from_str, stub_u32_from_str_script)]
        #[kani::stub(crate::ber::objectid::SnmpOid::precedes, stub_precedes)]
        fn $name() {
            let x: u8 = kani::any();
            kani::assume(x < 128);
            let start = [43u8, x];
            let nb: [u8; 4] = kani::any();
            let nn: usize = kani::any();
            kani::assume(nn >= 1 && nn <= 3);
            let advance: bool = kani::any();
            let mut it = mk_iter(x, advance, &nb, nn);
            let mut cur: [u8; 4] = if advance { nb } else { [43, x, 0, 0] };
            let mut cur_n: usize = if advance { nn } else { 2 };
            // the reply: $k varbinds
            let rb: [[u8; 4]; $k] = kani::any();
            let rn: [usize; $k] = kani::any();
            let kinds: [u8; $k] = kani::any();
            let mut i = 0;
            while i < $k {
                kani::assume(rn[i] >= 1 && rn[i] <= 3);
                kani::assume(kinds[i] < V_N);
                i += 1;
            }
            let vars: Vec<SnmpVar> = getbulk_step!(@vars $k, rb, rn, kinds);
            let pdu = SnmpPdu::GetResponse(SnmpGetResponse { request_id: 0, error_status: 0, error_index: 0, vars });
            let r = OpGetBulk::to_python(&pdu, Some(&mut it), py());
            // reference: expected items
            let mut exp_n = 0usize; // number of yielded pairs
            let mut exp_idx = [0usize; $k];
            let mut exp_marker = false;
            let mut i = 0;
            while i < $k {
                if !exp_marker && v_is_data(kinds[i]) {
                    let o = &rb[i][..rn[i]];
                    if is_prefix_n::<4>(&start, o) && arcs_less_n::<4>(&cur[..cur_n], o) {
                        exp_idx[exp_n] = i;
                        exp_n += 1;
                        cur = rb[i];
                        cur_n = rn[i];
                    } else {
                        exp_marker = true;
                    }
                }
                i += 1;
            }
            let after = it.get_next_oid();
            match &r {
                Ok(o) => match o.obj() {
                    Obj::List(s) => {
                        assert!(s.n == exp_n + (exp_marker as usize), "getbulk_yield_count");
                        assert!(s.n > 0, "getbulk_empty_list_returned");
                        let mut j = 0;
                        while j < $k {
                            if j < exp_n {
                                match s.items[j] {
                                    Item::Pair(a, b) => {
                                        let i = exp_idx[j];
                                        assert!(str_is_oid(&leaf_at(a), &rb[i][..rn[i]]), "getbulk_item_oid");
                                        assert!(v_leaf_matches(kinds[i], i as i64, &leaf_at(b)), "getbulk_item_value");
                                    }
                                    _ => panic!("getbulk_item_not_pair"),
                                }
                            }
                            j += 1;
                        }
                        if exp_marker {
                            assert!(s.items[exp_n] == Item::NoneMarker, "getbulk_end_marker_missing");
                        }
                        assert!(&after.0[..] == &cur[..cur_n], "getbulk_followup_is_last_accepted");
                        kani::cover!(exp_n == $k, "all varbinds yielded");
                        kani::cover!(exp_marker && (exp_n > 0 || $k == 1), "end marker after the yielded items");
                    }
                    _ => panic!("getbulk_result_not_list"),
                },
                Err(e) => {
                    assert!(e.is::<PyStopAsyncIteration>(), "getbulk_error_not_stop");
                    assert!(exp_n == 0 && !exp_marker, "getbulk_stopped_with_data_left");
                    kani::cover!(true, "stopped: no data values");
                }
            }
            assert!(model_ok(), "model_bound");
            core::mem::forget(r);
            core::mem::forget(pdu);
            core::mem::forget(it);
            core::mem::forget(after);
        }
    };
}
//@ C05,C06 quick | getbulk step: any state, reply of 1 varbind: any OID of 1..3 octets, any of 6 value kinds; result == reference
getbulk_step!(getbulk_step_1, 1);
// WITHDRAWN (see DESIGN.md section 9): not registered as a check.
// was: C05,C06 thorough | getbulk step: any state, reply of 2 varbinds: any OIDs of 1..3 octets, any of 6 value kinds each; result == reference (yield in-subtree increasing data values in order, end marker at first violation)
getbulk_step!(getbulk_step_2, 2);
// WITHDRAWN (see DESIGN.md section 9): not registered as a check.
// was: C05,C06 thorough optional | getbulk step: any state, reply of 3 varbinds
getbulk_step!(getbulk_step_3, 3);

//@ C05,C06 quick | SnmpOid::precedes(a, b) == arc-wise lexicographic order (harness reference) for ALL a, b of 1..4 content octets (guarantee side of cut S6)
#[kani::proof]
#[kani::unwind(7)]
fn precedes_spec() {
    let a: [u8; 4] = kani::any();
    let b: [u8; 4] = kani::any();
    let an: usize = kani::any();
    let bn: usize = kani::any();
    kani::assume(an >= 1 && an <= 4 && bn >= 1 && bn <= 4);
    // sub-identifiers must be complete (last octet without continuation bit), as the decoder's OIDs are when well-formed
    kani::assume(a[an - 1] & 0x80 == 0 && b[bn - 1] & 0x80 == 0);
    let x = oid(&a[..an]);
    let y = oid(&b[..bn]);
    let got = x.precedes(&y);
    assert!(got == arcs_less(&a[..an], &b[..bn]), "precedes_is_arcwise_order");
    kani::cover!(got && a[1] > b[1], "arc order differs from octet order");
    kani::cover!(!got, "not preceding");
    core::mem::forget(x);
    core::mem::forget(y);
}
