//! C09/C12 - HMAC-96 signing and USM key derivation, with TRANSCRIPT digests (M6): the model md-5/sha1 record what
//! is hashed and return harness-chosen outputs, so "correct" = the right octets are hashed in the right order and the
//! right output octets are used.  DigestAuth<D,KS,SS> is generic: the transcript proven for the model digest is the
//! transcript for Md5/Sha1 (parametricity).  MD5/SHA-1 themselves are outside the claim (pinned by the RFC vector tests).
use super::spec::*;
use super::util::*;
use crate::auth::{AuthKey, Md5AuthKey, Sha1AuthKey, SnmpAuth};
use crate::error::SnmpError;
use digest_model::{COPY_BYTES, CTXS, NEXT, OUT, OVERFLOW};

fn reset_digests(out: [[u8; 20]; 4]) {
    unsafe {
        NEXT = 0;
        OVERFLOW = false;
        let mut i = 0;
        while i < 4 {
            OUT[i] = out[i];
            CTXS[i].len = 0;
            CTXS[i].total = 0;
            CTXS[i].n_chunks = 0;
            i += 1;
        }
    }
}

macro_rules! sign_transcript {
    ($name:ident, $ty:ty, $ks:expr, $alg:expr, $n:expr) => {
        #[kani::proof]
        #[kani::unwind(66)]
        fn $name() {
            let key: [u8; $ks] = kani::any();
            let mut auth = AuthKey::new($alg).expect("alg");
            auth.as_localized(&key);
            let out: [[u8; 20]; 4] = kani::any();
            reset_digests(out);
            let mut msg: [u8; $n] = kani::any();
            let orig = msg;
            let off: usize = kani::any();
            kani::assume(off <= $n - 12);
            auth.sign(&mut msg, off).expect("sign");
            unsafe {
                assert!(!OVERFLOW && NEXT == 2, "hmac_uses_two_digest_contexts");
                // inner: (K xor ipad) || 0x36.. (64 octets) || message-as-given
                let c1 = &CTXS[0];
                assert!(c1.total == 64 + $n, "hmac_inner_length");
                let mut i = 0;
                while i < 64 {
                    let want = if i < $ks { key[i] ^ 0x36 } else { 0x36 };
                    assert!(c1.data[i] == want, "hmac_inner_key_block");
                    i += 1;
                }
                let mut i = 0;
                while i < $n {
                    assert!(c1.data[64 + i] == orig[i], "hmac_inner_message");
                    i += 1;
                }
                // outer: (K xor opad) || 0x5c.. || inner digest (KS octets)
                let c2 = &CTXS[1];
                assert!(c2.total == 64 + $ks, "hmac_outer_length");
                let mut i = 0;
                while i < 64 {
                    let want = if i < $ks { key[i] ^ 0x5c } else { 0x5c };
                    assert!(c2.data[i] == want, "hmac_outer_key_block");
                    i += 1;
                }
                let mut i = 0;
                while i < $ks {
                    assert!(c2.data[64 + i] == out[0][i], "hmac_outer_takes_inner_digest");
                    i += 1;
                }
            }
            // placement: 12 octets of the outer digest at `off`, nothing else touched
            let mut i = 0;
            while i < $n {
                if i >= off && i < off + 12 {
                    assert!(msg[i] == out[1][i - off], "mac_is_first_12_octets_of_outer_digest");
                } else {
                    assert!(msg[i] == orig[i], "sign_touches_only_the_mac_field");
                }
                i += 1;
            }
            kani::cover!(off > 0 && off + 12 < $n, "mac in the middle");
        }
    };
}
//@ C09 quick timeout=900 | HMAC-MD5-96: DigestAuth::sign over ANY 24-octet message, any offset, any 16-octet key, any digest outputs == RFC 2104 transcript; MAC placed at offset; nothing else modified
sign_transcript!(sign_transcript_md5, Md5AuthKey, 16, 1u8, 24);
//@ C09 quick timeout=900 | HMAC-SHA-96: same with a 20-octet key
sign_transcript!(sign_transcript_sha1, Sha1AuthKey, 20, 2u8, 24);

macro_rules! localize_transcript {
    ($name:ident, $ks:expr, $alg:expr, $el:expr) => {
        #[kani::proof]
        #[kani::unwind(42)]
        fn $name() {
            let key: [u8; $ks] = kani::any();
            let engine: [u8; $el] = kani::any();
            let auth = AuthKey::new($alg).expect("alg");
            let out: [[u8; 20]; 4] = kani::any();
            reset_digests(out);
            let mut res = [0u8; $ks];
            auth.localize(&key, &engine, &mut res);
            unsafe {
                assert!(!OVERFLOW && NEXT == 1, "localize_uses_one_digest");
                let c = &CTXS[0];
                assert!(c.total == 2 * $ks + $el, "localize_hashes_key_engine_key");
                let mut i = 0;
                while i < $ks {
                    assert!(c.data[i] == key[i] && c.data[$ks + $el + i] == key[i], "localize_key_octets");
                    assert!(res[i] == out[0][i], "localized_key_is_digest_prefix");
                    i += 1;
                }
                let mut i = 0;
                while i < $el {
                    assert!(c.data[$ks + i] == engine[i], "localize_engine_octets");
                    i += 1;
                }
            }
            kani::cover!(true, "localized");
        }
    };
}
//@ C09,C12 quick | localize (MD5): digest input == Ku || engineID || Ku for any 16-octet key and any 12-octet engine id; output == first 16 digest octets
localize_transcript!(localize_md5_12, 16, 1u8, 12);
//@ C09,C12 quick | localize (SHA-1): any 20-octet key, any 32-octet engine id (72 octets hashed); output == all 20 digest octets
localize_transcript!(localize_sha1_32, 20, 2u8, 32);
//@ C12 quick | localize (SHA-1): empty engine id
localize_transcript!(localize_sha1_0, 20, 2u8, 0);
//@ C12 thorough | localize (MD5): 32-octet engine id
localize_transcript!(localize_md5_32, 16, 1u8, 32);
//@ C12 thorough | localize (SHA-1): 25-octet engine id
localize_transcript!(localize_sha1_25, 20, 2u8, 25);

static BIG: [u8; 1_048_576 + 64] = [0; 1_048_576 + 64];

macro_rules! p2m_long {
    ($name:ident, $ks:expr, $alg:expr) => {
        #[kani::proof]
        #[kani::unwind(67)]
        fn $name() {
            let len: usize = kani::any();
            kani::assume(len >= 16384 && len <= 1_048_576 + 64);
            let auth = AuthKey::new($alg).expect("alg");
            let out: [[u8; 20]; 4] = kani::any();
            reset_digests(out);
            unsafe { COPY_BYTES = false };
            let mut res = [0u8; $ks];
            auth.password_to_master(&BIG[..len], &mut res);
            let n = 1_048_576 / len;
            let rem = 1_048_576 % len;
            unsafe {
                assert!(!OVERFLOW && NEXT == 1, "p2m_uses_one_digest");
                let c = &CTXS[0];
                assert!(c.total == 1_048_576, "p2m_hashes_exactly_one_megabyte");
                assert!(c.n_chunks == n + (rem > 0) as usize, "p2m_chunk_count");
                let base = BIG.as_ptr() as usize;
                let mut i = 0;
                while i < 65 {
                    if i < n {
                        assert!(c.chunk_ptr[i] == base && c.chunk_len[i] == len, "p2m_full_password_chunks");
                    } else if i == n && rem > 0 {
                        assert!(c.chunk_ptr[i] == base && c.chunk_len[i] == rem, "p2m_last_chunk_is_password_prefix");
                    }
                    i += 1;
                }
                let mut i = 0;
                while i < $ks {
                    assert!(res[i] == out[0][i], "master_key_is_digest_prefix");
                    i += 1;
                }
                COPY_BYTES = true;
            }
            kani::cover!(len > 1_048_576, "password longer than one megabyte");
            kani::cover!(rem == 0 && n == 64, "length divides 2^20");
            kani::cover!(rem > 0 && n > 1, "length does not divide 2^20");
        }
    };
}
//@ C12 quick timeout=900 | password_to_master (MD5): EVERY password length in 16384 ..= 2^20+64 (dividing, non-dividing, longer than 1 MiB): digest input == password repeated, cut at exactly 2^20 octets; output == digest[..16]
p2m_long!(p2m_long_md5, 16, 1u8);
//@ C12 quick timeout=900 | password_to_master (SHA-1): same, output == digest[..20]
p2m_long!(p2m_long_sha1, 20, 2u8);

//@ C12 quick | AuthKey::new / PrivKey::new for EVERY algorithm code 0..255: accepted <=> low six bits name a known algorithm
#[kani::proof]
#[kani::unwind(4)]
#[kani::stub(alloc::fmt::format, stub_format)]
fn alg_codes() {
    let code: u8 = kani::any();
    let r = AuthKey::new(code);
    assert!(r.is_ok() == ((code & 0x3f) <= 2), "auth_algorithm_code");
    if let Ok(a) = &r {
        assert!(a.get_key_size() == [0usize, 16, 20][(code & 0x3f) as usize], "key_size");
    }
    let p = crate::privacy::PrivKey::new(code);
    assert!(p.is_ok() == ((code & 0x3f) <= 2), "priv_algorithm_code");
    kani::cover!(r.is_err(), "unknown refused");
    kani::cover!(r.is_ok() && code > 0x80, "known with key type bits");
    core::mem::forget(r);
    core::mem::forget(p);
}

macro_rules! key_validation {
    ($name:ident, $code:expr, $ks:expr) => {
        key_validation!($name, $code, $ks, kani::any());
    };
    ($name:ident, $code:expr, $ks:expr, $n:expr) => {
        #[kani::proof]
        #[kani::unwind(26)]
        #[kani::stub(alloc::fmt::format, stub_format)]
        fn $name() {
            let code: u8 = $code;
            let ktype = code & 0xc0;
            let mut auth = AuthKey::new(code).expect("alg");
            let key: [u8; 24] = kani::any();
            let n: usize = if ktype == 0 { 0 } else { $n };
            kani::assume(n <= 24);
            let out: [[u8; 20]; 4] = kani::any();
            reset_digests(out);
            let engine: [u8; 5] = kani::any();
            let res = auth.as_key_type(code, &key[..n], &engine);
            match res {
                Ok(()) => {
                    assert!(ktype == 0x40 || ktype == 0x80, "invalid_key_type_or_empty_password_accepted");
                    assert!(n == $ks, "wrong_size_key_accepted");
                    let k = auth.get_key();
                    let mut i = 0;
                    while i < $ks {
                        if ktype == 0x80 {
                            assert!(k[i] == key[i], "localized_key_stored_verbatim");
                        } else {
                            assert!(k[i] == out[0][i], "master_key_localized_with_digest");
                        }
                        i += 1;
                    }
                }
                Err(_) => {
                    assert!(ktype == 0xc0 || ktype == 0 || n != $ks, "valid_key_refused");
                }
            }
            kani::cover!(true, "decided");
        }
    };
}
//@ C12 quick | as_key_type, MD5, EMPTY password: refused with an error (no division by zero)
key_validation!(kv_md5_empty_password, 0x01u8, 16);
//@ C12 quick | as_key_type, MD5, master key of 16 octets (any content): localized with the engine id (transcript) and stored
key_validation!(kv_md5_master_16, 0x41u8, 16, 16);
//@ C12 quick | as_key_type, MD5, master key of 15 octets: refused
key_validation!(kv_md5_master_15, 0x41u8, 16, 15);
//@ C12 quick | as_key_type, MD5, master key of 20 octets (a SHA-1 sized key): refused
key_validation!(kv_md5_master_20, 0x41u8, 16, 20);
//@ C12 quick | as_key_type, MD5, localized key of EVERY length 0..24: stored verbatim iff 16 octets, else refused
key_validation!(kv_md5_localized, 0x81u8, 16);
//@ C12 quick | as_key_type, SHA-1, localized key of EVERY length 0..24: stored verbatim iff 20 octets
key_validation!(kv_sha1_localized, 0x82u8, 20);
//@ C12 quick | as_key_type, SHA-1, master key of 20 octets: localized and stored
key_validation!(kv_sha1_master_20, 0x42u8, 20, 20);
//@ C12 quick | as_key_type, SHA-1, master key of 16 octets (an MD5 sized key): refused
key_validation!(kv_sha1_master_16, 0x42u8, 20, 16);
//@ C12 quick | as_key_type, key type bits 11 (undefined): refused
key_validation!(kv_md5_badtype, 0xc1u8, 16);
//@ C09,C12 quick | localize (MD5): 40-octet engine id (longer than the usual 32): ALL engine id octets are hashed
localize_transcript!(localize_md5_40, 16, 1u8, 40);
