//! Helpers shared by the model-profile harnesses.
#![allow(dead_code)]
use crate::ber::SnmpOid;
use crate::error::SnmpError;
use crate::snmp::getresponse::{SnmpGetResponse, SnmpVar};
use crate::snmp::value::SnmpValue;
use pyo3::{Blob, Leaf, Python, BLOB_CAP};
use std::borrow::Cow;

pub fn py() -> Python<'static> {
    Python::assume_gil()
}

/// Stub for `String::try_from(&SnmpOid)` in op/socket harnesses (S3'): an INJECTIVE rendering of the OID's
/// content octets (two letters per octet) instead of dotted decimal, so that harnesses can identify which OID
/// a Python string denotes without running core::fmt under CBMC.  The real rendering is checked in C02/C08.
pub fn stub_oid_to_string<'a, 'b>(value: &'a SnmpOid<'b>) -> Result<String, SnmpError>
where
    'a: 'a,
    'b: 'b,
{
    let b: &[u8] = &value.0;
    if b.is_empty() {
        return Err(SnmpError::InvalidData);
    }
    // CBMC-friendly: one allocation of CONCRETE size, index assignment, then a (symbolic) truncate.
    // Only the first BLOB_CAP/2 content octets are rendered (model bound, OIDs in harnesses are shorter).
    let mut v: Vec<u8> = vec![b'a'; BLOB_CAP];
    let mut i = 0;
    while i < BLOB_CAP / 2 {
        if i < b.len() {
            v[2 * i] = b'a' + (b[i] >> 4);
            v[2 * i + 1] = b'a' + (b[i] & 15);
        }
        i += 1;
    }
    let n = if b.len() * 2 < BLOB_CAP { b.len() * 2 } else { BLOB_CAP };
    unsafe { v.set_len(n) };
    Ok(unsafe { String::from_utf8_unchecked(v) })
}

/// Does the Python string `l` denote the OID with content octets `oid` (under stub_oid_to_string)?
pub fn str_is_oid(l: &Leaf, oid: &[u8]) -> bool {
    match l {
        Leaf::Str(b) => {
            let n = if oid.len() * 2 < BLOB_CAP { oid.len() * 2 } else { BLOB_CAP };
            if b.len != n {
                return false;
            }
            let mut i = 0;
            while i < BLOB_CAP / 2 {
                if i < oid.len() {
                    if b.data[2 * i] != b'a' + (oid[i] >> 4) || b.data[2 * i + 1] != b'a' + (oid[i] & 15) {
                        return false;
                    }
                }
                i += 1;
            }
            true
        }
        _ => false,
    }
}

pub fn oid(bytes: &[u8]) -> SnmpOid<'_> {
    SnmpOid(Cow::Borrowed(bytes))
}

/// Value kinds in the order of `SnmpValue`'s variants.
pub const K_BOOL: u8 = 0;
pub const K_INT: u8 = 1;
pub const K_NULL: u8 = 2;
pub const K_OCTETS: u8 = 3;
pub const K_OID: u8 = 4;
pub const K_OBJDESC: u8 = 5;
pub const K_REAL: u8 = 6;
pub const K_IP: u8 = 7;
pub const K_C32: u8 = 8;
pub const K_G32: u8 = 9;
pub const K_TT: u8 = 10;
pub const K_OPAQUE: u8 = 11;
pub const K_C64: u8 = 12;
pub const K_U32: u8 = 13;
pub const K_NOSUCHOBJ: u8 = 14;
pub const K_NOSUCHINST: u8 = 15;
pub const K_EOMV: u8 = 16;
pub const N_KINDS: u8 = 17;

pub fn kind_tag(kind: u8) -> u8 {
    match kind {
        K_BOOL => 0x01,
        K_INT => 0x02,
        K_NULL => 0x05,
        K_OCTETS => 0x04,
        K_OID => 0x06,
        K_OBJDESC => 0x07,
        K_REAL => 0x09,
        K_IP => 0x40,
        K_C32 => 0x41,
        K_G32 => 0x42,
        K_TT => 0x43,
        K_OPAQUE => 0x44,
        K_C64 => 0x46,
        K_U32 => 0x47,
        K_NOSUCHOBJ => 0x80,
        K_NOSUCHINST => 0x81,
        _ => 0x82,
    }
}

pub fn is_data_kind(kind: u8) -> bool {
    kind != K_NULL && kind < K_NOSUCHOBJ
}

/// Fill `tlv` (6 octets: tag, length, 4 content octets) with a well-formed element of `kind`; returns its length.
pub fn fill_tlv(kind: u8, content: [u8; 4], tlv: &mut [u8; 6]) -> usize {
    tlv[0] = kind_tag(kind);
    let l: usize = match kind {
        K_BOOL => 1,
        K_NULL | K_NOSUCHOBJ | K_NOSUCHINST | K_EOMV => 0,
        K_REAL => 1,
        _ => 4,
    };
    tlv[1] = l as u8;
    tlv[2] = content[0];
    tlv[3] = content[1];
    tlv[4] = content[2];
    tlv[5] = content[3];
    if kind == K_REAL {
        // special values only: +inf, -inf, NaN, -0 (numeric REAL forms are checked at the codec layer)
        tlv[2] = 0x40 | (content[0] & 3);
    }
    2 + l
}

/// What Python object the documented mapping assigns to a value of `kind` with these content octets.
pub fn expected_leaf_matches(kind: u8, c: [u8; 4], got: &Leaf) -> bool {
    let be = u32::from_be_bytes(c);
    match kind {
        K_BOOL => *got == Leaf::Bool(c[0] != 0),
        K_INT => *got == Leaf::I64(i32::from_be_bytes(c) as i64),
        K_OCTETS | K_OBJDESC | K_OPAQUE => match got {
            Leaf::Bytes(b) => b.same_content(&c),
            _ => false,
        },
        K_OID => str_is_oid(got, &c),
        K_REAL => match got {
            Leaf::Float(f) => match c[0] & 3 {
                0 => *f == f64::INFINITY,
                1 => *f == f64::NEG_INFINITY,
                2 => f.is_nan(),
                _ => *f == 0.0 && f.is_sign_negative(),
            },
            _ => false,
        },
        K_IP => matches!(got, Leaf::Str(_)),
        K_C32 | K_G32 | K_TT | K_U32 => *got == Leaf::U32(be),
        K_C64 => *got == Leaf::U64(be as u64),
        _ => false,
    }
}

pub fn model_ok() -> bool {
    unsafe { !pyo3::MODEL_BOUND_EXCEEDED }
}
