//! Helpers shared by the model-profile harnesses.
#![allow(dead_code)]
use crate::ber::SnmpOid;
use crate::error::SnmpError;
use crate::snmp::getresponse::{SnmpGetResponse, SnmpVar};
use crate::snmp::value::SnmpValue;
use pyo3::{Blob, Leaf, Python, BLOB_CAP};
use std::borrow::Cow;

pub fn py() -> Python<'static> {
    Python::assume_gil()
}

/// Stub for `String::try_from(&SnmpOid)` in op/socket harnesses (S3'): an INJECTIVE rendering of the OID's
/// content octets (two letters per octet) instead of dotted decimal, so that harnesses can identify which OID
/// a Python string denotes without running core::fmt under CBMC.  The real rendering is checked in C02/C08.
pub fn stub_oid_to_string<'a, 'b>(value: &'a SnmpOid<'b>) -> Result<String, SnmpError>
where
    'a: 'a,
    'b: 'b,
{
    let b: &[u8] = &value.0;
    if b.is_empty() {
        return Err(SnmpError::InvalidData);
    }
    // CBMC-friendly: one allocation of CONCRETE size, index assignment, then a (symbolic) truncate.
    // Only the first BLOB_CAP/2 content octets are rendered (model bound, OIDs in harnesses are shorter).
    let mut v: Vec<u8> = vec![b'a'; BLOB_CAP];
    let mut i = 0;
    while i < BLOB_CAP / 2 {
        if i < b.len() {
            v[2 * i] = b'a' + (b[i] >> 4);
            v[2 * i + 1] = b'a' + (b[i] & 15);
        }
        i += 1;
    }
    let n = if b.len() * 2 < BLOB_CAP { b.len() * 2 } else { BLOB_CAP };
    unsafe { v.set_len(n) };
    Ok(unsafe { String::from_utf8_unchecked(v) })
}

/// Does the Python string `l` denote the OID with content octets `oid` (under stub_oid_to_string)?
pub fn str_is_oid(l: &Leaf, oid: &[u8]) -> bool {
    match l {
        Leaf::Str(b) => {
            let n = if oid.len() * 2 < BLOB_CAP { oid.len() * 2 } else { BLOB_CAP };
            if b.len != n {
                return false;
            }
            let mut i = 0;
            while i < BLOB_CAP / 2 {
                if i < oid.len() {
                    if b.data[2 * i] != b'a' + (oid[i] >> 4) || b.data[2 * i + 1] != b'a' + (oid[i] & 15) {
                        return false;
                    }
                }
                i += 1;
            }
            true
        }
        _ => false,
    }
}

pub fn oid(bytes: &[u8]) -> SnmpOid<'_> {
    SnmpOid(Cow::Borrowed(bytes))
}

/// Value kinds in the order of `SnmpValue`'s variants.
pub const K_BOOL: u8 = 0;
pub const K_INT: u8 = 1;
pub const K_NULL: u8 = 2;
pub const K_OCTETS: u8 = 3;
pub const K_OID: u8 = 4;
pub const K_OBJDESC: u8 = 5;
pub const K_REAL: u8 = 6;
pub const K_IP: u8 = 7;
pub const K_C32: u8 = 8;
pub const K_G32: u8 = 9;
pub const K_TT: u8 = 10;
pub const K_OPAQUE: u8 = 11;
pub const K_C64: u8 = 12;
pub const K_U32: u8 = 13;
pub const K_NOSUCHOBJ: u8 = 14;
pub const K_NOSUCHINST: u8 = 15;
pub const K_EOMV: u8 = 16;
pub const N_KINDS: u8 = 17;

pub fn kind_tag(kind: u8) -> u8 {
    match kind {
        K_BOOL => 0x01,
        K_INT => 0x02,
        K_NULL => 0x05,
        K_OCTETS => 0x04,
        K_OID => 0x06,
        K_OBJDESC => 0x07,
        K_REAL => 0x09,
        K_IP => 0x40,
        K_C32 => 0x41,
        K_G32 => 0x42,
        K_TT => 0x43,
        K_OPAQUE => 0x44,
        K_C64 => 0x46,
        K_U32 => 0x47,
        K_NOSUCHOBJ => 0x80,
        K_NOSUCHINST => 0x81,
        _ => 0x82,
    }
}

pub fn is_data_kind(kind: u8) -> bool {
    kind != K_NULL && kind < K_NOSUCHOBJ
}

/// Fill `tlv` (6 octets: tag, length, 4 content octets) with a well-formed element of `kind`; returns its length.
pub fn fill_tlv(kind: u8, content: [u8; 4], tlv: &mut [u8; 6]) -> usize {
    tlv[0] = kind_tag(kind);
    let l: usize = match kind {
        K_BOOL => 1,
        K_NULL | K_NOSUCHOBJ | K_NOSUCHINST | K_EOMV => 0,
        K_REAL => 1,
        _ => 4,
    };
    tlv[1] = l as u8;
    tlv[2] = content[0];
    tlv[3] = content[1];
    tlv[4] = content[2];
    tlv[5] = content[3];
    if kind == K_REAL {
        // special values only: +inf, -inf, NaN, -0 (numeric REAL forms are checked at the codec layer)
        tlv[2] = 0x40 | (content[0] & 3);
    }
    2 + l
}

/// What Python object the documented mapping assigns to a value of `kind` with these content octets.
pub fn expected_leaf_matches(kind: u8, c: [u8; 4], got: &Leaf) -> bool {
    let be = u32::from_be_bytes(c);
    match kind {
        K_BOOL => *got == Leaf::Bool(c[0] != 0),
        K_INT => *got == Leaf::I64(i32::from_be_bytes(c) as i64),
        K_OCTETS | K_OBJDESC | K_OPAQUE => match got {
            Leaf::Bytes(b) => b.same_content(&c),
            _ => false,
        },
        K_OID => str_is_oid(got, &c),
        K_REAL => match got {
            Leaf::Float(f) => match c[0] & 3 {
                0 => *f == f64::INFINITY,
                1 => *f == f64::NEG_INFINITY,
                2 => f.is_nan(),
                _ => *f == 0.0 && f.is_sign_negative(),
            },
            _ => false,
        },
        K_IP => matches!(got, Leaf::Str(_)),
        K_C32 | K_G32 | K_TT | K_U32 => *got == Leaf::U32(be),
        K_C64 => *got == Leaf::U64(be as u64),
        _ => false,
    }
}

pub fn model_ok() -> bool {
    unsafe { !pyo3::MODEL_BOUND_EXCEEDED }
}

// ------------------------------------------------------------------------------------
// Scripted tokenizer results for SnmpOid::try_from(&str) (same cut as c08::arcs_N): lets harnesses create
// a GetIter / request for an OID with SYMBOLIC arcs without running str::split + u32::from_str on symbolic text.
pub const SCRIPT_N: usize = 6;
pub static mut ARC_SCRIPT: [u32; SCRIPT_N] = [0; SCRIPT_N];
pub static mut ARC_POS: usize = 0;

pub fn stub_u32_from_str_script(_s: &str) -> Result<u32, core::num::ParseIntError> {
    unsafe {
        let i = ARC_POS;
        ARC_POS += 1;
        if i < SCRIPT_N {
            Ok(ARC_SCRIPT[i])
        } else {
            Err("".parse::<u8>().unwrap_err())
        }
    }
}

/// Arrange for the next SnmpOid::try_from("0.0.0") to produce first octet 43 (1.3) followed by one arc < 128.
pub fn script_oid_1_3_x(x: u8) {
    unsafe {
        ARC_SCRIPT[0] = 1;
        ARC_SCRIPT[1] = 3;
        ARC_SCRIPT[2] = (x & 0x7f) as u32;
        ARC_POS = 0;
    }
}

/// lexicographic comparison of two OIDs by ARCS (decoded base-128), content octets `a`, `b` (first octet = arcs 0,1)
pub fn arcs_less(a: &[u8], b: &[u8]) -> bool {
    arcs_less_n::<6>(a, b)
}

/// Same, for OIDs of at most N content octets (loops run N times: keeps harness unwind bounds small).
pub fn arcs_less_n<const N: usize>(a: &[u8], b: &[u8]) -> bool {
    let (aa, an) = decode_arcs_n::<N>(a);
    let (ba, bn) = decode_arcs_n::<N>(b);
    let mut i = 0;
    while i < N {
        if i >= an {
            return i < bn; // a is a proper prefix of b
        }
        if i >= bn {
            return false;
        }
        if aa[i] != ba[i] {
            return aa[i] < ba[i];
        }
        i += 1;
    }
    false
}

pub fn decode_arcs(c: &[u8]) -> ([u64; 6], usize) {
    decode_arcs_n::<6>(c)
}

pub fn decode_arcs_n<const N: usize>(c: &[u8]) -> ([u64; 6], usize) {
    // every sub-identifier is base-128, big endian, continuation bit 0x80; the first one packs arcs 0 and 1 (40*X+Y),
    // which preserves the order of (X, Y) pairs
    let mut out = [0u64; 6];
    let mut n = 0;
    let mut acc: u64 = 0;
    let mut i = 0;
    while i < N {
        if i < c.len() {
            acc = (acc << 7) | (c[i] & 0x7f) as u64;
            if c[i] & 0x80 == 0 {
                if n < 6 {
                    out[n] = acc;
                    n += 1;
                }
                acc = 0;
            }
        }
        i += 1;
    }
    (out, n)
}

pub fn is_prefix(p: &[u8], s: &[u8]) -> bool {
    is_prefix_n::<6>(p, s)
}

pub fn is_prefix_n<const N: usize>(p: &[u8], s: &[u8]) -> bool {
    if p.len() > s.len() {
        return false;
    }
    let mut i = 0;
    while i < N {
        if i < p.len() && p[i] != s[i] {
            return false;
        }
        i += 1;
    }
    true
}

/// Small value universe for walk harnesses, built directly (no decode).
pub const V_INT: u8 = 0;
pub const V_OCTETS: u8 = 1;
pub const V_NULL: u8 = 2;
pub const V_NOSUCHOBJ: u8 = 3;
pub const V_NOSUCHINST: u8 = 4;
pub const V_EOMV: u8 = 5;
pub const V_N: u8 = 6;
pub static OCTETS_SAMPLE: [u8; 2] = [0xab, 0xcd];

pub fn mk_value(kind: u8, n: i64) -> SnmpValue<'static> {
    match kind {
        V_INT => SnmpValue::Int(n.into()),
        V_OCTETS => SnmpValue::OctetString(crate::ber::SnmpOctetString(&OCTETS_SAMPLE)),
        V_NULL => SnmpValue::Null,
        V_NOSUCHOBJ => SnmpValue::NoSuchObject,
        V_NOSUCHINST => SnmpValue::NoSuchInstance,
        _ => SnmpValue::EndOfMibView,
    }
}
pub fn v_is_data(kind: u8) -> bool {
    kind == V_INT || kind == V_OCTETS
}
pub fn v_leaf_matches(kind: u8, n: i64, l: &Leaf) -> bool {
    match kind {
        V_INT => *l == Leaf::I64(n),
        V_OCTETS => matches!(l, Leaf::Bytes(b) if b.same_content(&OCTETS_SAMPLE)),
        _ => false,
    }
}

/// Stub for `SnmpOid::precedes` in walk-step harnesses (assume-guarantee cut S6): the harness-side arc-wise order.
/// The real `precedes` is checked to equal this function for all OIDs of 1..4 octets in c06::precedes_spec.
pub fn stub_precedes<'x>(this: &SnmpOid<'x>, other: &SnmpOid) -> bool
where
    'x: 'x,
{
    arcs_less_n::<4>(&this.0, &other.0)
}

// ------------------------------------------------------------------------------------
// Cut S7: `SnmpOid::try_from(&str)` replaced by a scripted result in socket-layer harnesses.  The text -> OID
// conversion is decided on its own in C08 (arcs_N + tokenizer harnesses); here the request's OID is a borrowed
// slice of a static array with symbolic content and CONCRETE length (an owned Vec of symbolic length made the
// encoder query run > 600 s of symbolic execution).
pub const OID_SLOTS: usize = 3;
pub static mut OID0: [u8; 4] = [0; 4];
pub static mut OID1: [u8; 4] = [0; 4];
pub static mut OID2: [u8; 4] = [0; 4];
pub static mut OID_POS: usize = 0;
pub static mut OID_FAIL_AT: usize = usize::MAX;

/// Every scripted OID has 3 content octets (concrete length).  The stub is STATELESS on purpose (it only reads
/// statics that the harness set up beforehand): a stub that advanced a `static mut` position counter made CBMC report
/// spurious dereference failures in the buffer pool's Vec (minimal reproduction kept in DESIGN.md, section 9).
/// All OIDs of one request are therefore the same scripted OID; multi-OID order is checked at the PDU level.
pub fn stub_oid_from_str<'a, 'b>(_value: &'a str) -> Result<SnmpOid<'b>, SnmpError>
where
    'a: 'a,
    'b: 'b,
{
    unsafe {
        if OID_FAIL_AT == 0 {
            return Err(SnmpError::InvalidData);
        }
        let s: &'static [u8; 4] = &*core::ptr::addr_of!(OID0);
        Ok(SnmpOid(Cow::Borrowed(&s[..3])))
    }
}

pub fn script_oids(b: [[u8; 4]; OID_SLOTS]) {
    unsafe {
        OID0 = b[0];
        OID1 = b[1];
        OID2 = b[2];
        OID_POS = 0;
    }
}
