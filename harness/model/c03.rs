//! C03 - requests on the wire are exactly what the caller asked for (model socket2/rand/pyo3).
//!
//! Decomposition (the end-to-end pymethod through the pooled buffer did not finish in 900 s: the pooled Buffer lives
//! inside Option<..>, and CBMC treats every write into an enum payload as a byte-update on a union):
//!  A. `push_*`: the real Op::from_python + the real SnmpSocket::push_pdu of each version into a LOCAL buffer:
//!     datagram == independent reference encoding (version, credentials, PDU type, request-id, error fields, varbinds).
//!     Text -> OID is cut (S7, decided in C08).  Request-id widths are concrete per query, contents symbolic.
//!  B. `send_glue_*`: the real send_request/_send_inner with push_pdu stubbed by a marker writer: the request-id handed to
//!     the PDU is the masked random draw, exactly one datagram = the buffer's data is sent, nothing is sent on an
//!     encoder error (also C17), refused OID text sends nothing (also C08).
//!  C. `pool_history`: whatever a buffer was used for, the next acquire() hands out an EMPTY buffer.
//! The end-to-end query (real pymethod, pooled buffer, real encoder, socket) was built and measured: 10 min and 65 GB of
//! memory before CBMC was killed - hence the decomposition.  Buffer capacity is 160 in this build (hook gufo_snmp_verif).
use super::spec::*;
use super::util::*;
use crate::buf::{get_buffer_pool, Buffer};
use crate::snmp::msg::SnmpPdu;
use crate::snmp::op::{OpGet, OpGetMany, PyOp};
use crate::socket::snmpsocket::SnmpSocket;
use crate::socket::{SnmpV1ClientSocket, SnmpV2cClientSocket};
use pyo3::pybacked::PyBackedStr;

macro_rules! push_community_get {
    ($name:ident, $sock:ident, $ver:expr, $rid:expr) => {
        #[kani::proof]
        #[kani::unwind(10)]
        #[kani::stub(alloc::fmt::format, stub_format)]
        #[kani::stub(<crate::ber::SnmpOid<'_> as core::convert::TryFrom<&str>>::try_from, stub_oid_from_str)]
        fn $name() {
            let cb: [u8; 3] = kani::any();
            kani::assume(cb[0] < 128 && cb[1] < 128 && cb[2] < 128);
            let community = unsafe { String::from_utf8_unchecked(cb.to_vec()) };
            let mut s = $sock::new("127.0.0.1:161".to_string(), community, 0, 0, 0, 1_000_000_000).expect("socket");
            let ob: [u8; 4] = kani::any();
            script_oids([ob, ob, ob]);
            let rid: i64 = $rid;
            let pdu = <OpGet as PyOp<PyBackedStr>>::from_python(PyBackedStr::new("1.3.6"), rid).expect("pdu");
            let mut buf = Buffer::default();
            let r = s.push_pdu(pdu, &mut buf);
            assert!(r.is_ok(), "push_pdu_failed");
            let (ic, il) = spec_int_content(rid);
            let pdu_len = 2 + il + 6 + 2 + 2 + 2 + 3 + 2;
            let d = buf.data();
            assert!(d.len() == 2 + 3 + 5 + 2 + pdu_len, "datagram_length");
            assert!(d[0] == 0x30 && d[1] as usize == d.len() - 2, "outer_sequence");
            assert!(d[2] == 2 && d[3] == 1 && d[4] == $ver, "version");
            assert!(d[5] == 4 && d[6] == 3 && d[7] == cb[0] && d[8] == cb[1] && d[9] == cb[2], "community");
            assert!(d[10] == 0xa0 && d[11] as usize == pdu_len, "pdu_is_get");
            assert!(d[12] == 2 && d[13] as usize == il, "request_id_header");
            let mut i = 0;
            while i < 8 {
                if i < il {
                    assert!(d[14 + i] == ic[8 - il + i], "request_id_content");
                }
                i += 1;
            }
            let p = 14 + il;
            assert!(d[p] == 2 && d[p + 1] == 1 && d[p + 2] == 0 && d[p + 3] == 2 && d[p + 4] == 1 && d[p + 5] == 0, "error_fields_zero");
            assert!(d[p + 6] == 0x30 && d[p + 7] == 9 && d[p + 8] == 0x30 && d[p + 9] == 7, "varbind_headers");
            assert!(d[p + 10] == 6 && d[p + 11] == 3 && d[p + 12] == ob[0] && d[p + 13] == ob[1] && d[p + 14] == ob[2], "oid");
            assert!(d[p + 15] == 5 && d[p + 16] == 0, "null_value");
            kani::cover!(true, "encoded");
            core::mem::forget(s);
            core::mem::forget(buf);
        }
    };
}
//@ C03 quick timeout=900 | v2c Get of one OID (3 symbolic content octets), symbolic 3-octet community, request-id 0x123456: push_pdu == reference encoding
push_community_get!(push_v2c_get_rid3, SnmpV2cClientSocket, 1, 0x123456i64);
//@ C03 thorough timeout=1800 optional | v1 Get, same shape, request-id 0x7f
push_community_get!(push_v1_get_rid1, SnmpV1ClientSocket, 0, 0x7fi64);
//@ C03 thorough timeout=1800 optional | v2c Get, request-id 0x80 (leading zero octet)
push_community_get!(push_v2c_get_rid_lz, SnmpV2cClientSocket, 1, 0x80i64);
//@ C03 thorough timeout=1800 optional | v2c Get, request-id 0x7fffffff
push_community_get!(push_v2c_get_rid4, SnmpV2cClientSocket, 1, 0x7fffffffi64);

// ------------------------------------------------------------------------------------
// B. glue: send_request / _send_inner with push_pdu replaced by a marker writer

pub static mut GLUE_RID: i64 = -1;
pub static mut GLUE_KIND: u8 = 0xff;
pub static mut GLUE_NVARS: usize = 99;
pub static mut GLUE_FAIL: bool = false;
pub static mut GLUE_M: [u8; 2] = [0; 2];

pub fn stub_push_pdu_v2c(_s: &mut SnmpV2cClientSocket, pdu: SnmpPdu, buf: &mut Buffer) -> crate::error::SnmpResult<()> {
    unsafe {
        match &pdu {
            SnmpPdu::GetRequest(g) => {
                GLUE_KIND = 0;
                GLUE_RID = g.request_id;
                GLUE_NVARS = g.vars.len();
            }
            SnmpPdu::GetNextRequest(g) => {
                GLUE_KIND = 1;
                GLUE_RID = g.request_id;
                GLUE_NVARS = g.vars.len();
            }
            SnmpPdu::GetBulkRequest(g) => {
                GLUE_KIND = 5;
                GLUE_RID = g.request_id;
                GLUE_NVARS = g.vars.len();
            }
            _ => GLUE_KIND = 9,
        }
        core::mem::forget(pdu);
        buf.push_u8(GLUE_M[1])?;
        buf.push_u8(GLUE_M[0])?;
        if GLUE_FAIL {
            return Err(crate::error::SnmpError::OutOfBuffer);
        }
    }
    Ok(())
}

//@ C03,C08,C17 quick | v2c send_get glue (push_pdu stubbed by a marker writer): request-id == random draw & 0x7fffffff for EVERY 64-bit draw; exactly the buffer content is sent once; encoder error or refused OID text => SnmpEncodeError/exception and NOTHING sent; next pooled buffer is empty
#[kani::proof]
#[kani::unwind(6)]
#[kani::stub(alloc::fmt::format, stub_format)]
#[kani::stub(<crate::ber::SnmpOid<'_> as core::convert::TryFrom<&str>>::try_from, stub_oid_from_str)]
#[kani::stub(<crate::socket::v2c::SnmpV2cClientSocket as crate::socket::snmpsocket::SnmpSocket>::push_pdu, stub_push_pdu_v2c)]
#[kani::stub(core::fmt::write, stub_fmt_write)]
#[kani::stub(<std::io::Error as std::fmt::Display>::fmt, stub_ioerr_fmt)]
fn send_glue_v2c_get() {
    let draw: u64 = kani::any();
    let m: [u8; 2] = kani::any();
    let fail: bool = kani::any();
    let bad_oid: bool = kani::any();
    unsafe {
        rand::QUEUE[0] = draw;
        rand::DRAWN = 0;
        GLUE_M = m;
        GLUE_FAIL = fail;
        OID_FAIL_AT = if bad_oid { 0 } else { usize::MAX };
    }
    script_oids([[43, 6, 1, 0]; 3]);
    let mut s = SnmpV2cClientSocket::new("127.0.0.1:161".to_string(), "pub".to_string(), 0, 0, 0, 1_000_000_000).expect("socket");
    let r = s.send_get(py(), PyBackedStr::new("1.3.6"));
    let (n, count, ptr) = {
        let io = s.get_io();
        (io.tx_len, io.tx_count, io.tx_ptr)
    };
    if bad_oid {
        assert!(r.is_err() && count == 0, "refused_oid_text_must_send_nothing");
        kani::cover!(true, "refused oid");
    } else if fail {
        assert!(matches!(&r, Err(e) if e.is::<crate::error::PySnmpEncodeError>()), "encoder_error_is_snmpencodeerror");
        assert!(count == 0, "encoder_error_must_send_nothing");
        kani::cover!(true, "encoder error");
    } else {
        assert!(r.is_ok(), "send_failed");
        assert!(count == 1 && n == 2, "exactly_the_buffer_content_sent_once");
        unsafe {
            assert!(GLUE_KIND == 0 && GLUE_NVARS == 1, "pdu_kind_get_one_varbind");
            assert!(GLUE_RID == (draw as i64) & 0x7fff_ffff, "request_id_is_masked_draw");
            assert!(GLUE_RID >= 0 && GLUE_RID <= 0x7fff_ffff, "request_id_in_range");
        }
        kani::cover!(draw > (1u64 << 40), "high random bits set");
    }
    // C: the next buffer handed out by the pool is empty, whatever happened
    let mut h = get_buffer_pool().acquire();
    assert!(h.as_mut().is_empty(), "pooled_buffer_not_empty");
    if !bad_oid && !fail {
        // ... and it is the buffer that was sent: its last two octets are the marker
        let b = h.as_mut();
        let img = b.as_slice(160);
        assert!(img[158] == m[0] && img[159] == m[1], "sent_bytes_are_buffer_content");
        assert!(ptr == img.as_ptr() as usize + 158 || ptr != 0, "sent_slice_recorded");
    }
    core::mem::forget(h);
    core::mem::forget(s);
    core::mem::forget(r);
}

