//! C03 - requests on the wire are exactly what the caller asked for (socket layer, model socket2/rand/pyo3).
use super::spec::*;
use super::util::*;
use crate::socket::snmpsocket::SnmpSocket;
use crate::socket::{SnmpV1ClientSocket, SnmpV2cClientSocket};
use pyo3::pybacked::PyBackedStr;

//@ C03 quick timeout=1500 | v2c send_get("1.3.x"): community "pub", symbolic arc x, symbolic random draw: datagram == reference encoding
#[kani::proof]
#[kani::unwind(12)]
#[kani::stub(alloc::fmt::format, stub_format)]
#[kani::stub(<u32 as core::str::FromStr>::from_str, stub_u32_from_str_script)]
fn v2c_send_get_small() {
    let draw: u64 = kani::any();
    unsafe {
        rand::QUEUE[0] = draw;
        rand::DRAWN = 0;
    }
    let mut s = SnmpV2cClientSocket::new("127.0.0.1:161".to_string(), "pub".to_string(), 0, 0, 0, 1_000_000_000).expect("socket");
    let x: u8 = kani::any();
    kani::assume(x < 128);
    script_oid_1_3_x(x);
    let r = s.send_get(py(), PyBackedStr::new("0.0.0"));
    assert!(r.is_ok(), "send_get_failed");
    let io = s.get_io();
    assert!(io.tx_count == 1, "exactly_one_datagram");
    let rid = (draw as i64) & 0x7fff_ffff;
    let (ic, il) = spec_int_content(rid);
    // reference encoding
    let n = io.tx_len;
    let pdu_len = 2 + il + 6 + 2 + 2 + 2 + 3 + 2; // rid, err x2, vbl hdr, vb hdr, oid hdr, oid(3), null
    assert!(n == 2 + 3 + 5 + 2 + pdu_len, "datagram_length");
    let d = &io.tx;
    assert!(d[0] == 0x30 && d[1] as usize == n - 2, "outer_sequence");
    assert!(d[2] == 2 && d[3] == 1 && d[4] == 1, "version_v2c");
    assert!(d[5] == 4 && d[6] == 3 && d[7] == b'p' && d[8] == b'u' && d[9] == b'b', "community");
    assert!(d[10] == 0xa0 && d[11] as usize == pdu_len, "pdu_get");
    assert!(d[12] == 2 && d[13] as usize == il, "request_id_header");
    let mut i = 0;
    while i < 8 {
        if i < il {
            assert!(d[14 + i] == ic[8 - il + i], "request_id_content");
        }
        i += 1;
    }
    let p = 14 + il;
    assert!(d[p] == 2 && d[p + 1] == 1 && d[p + 2] == 0 && d[p + 3] == 2 && d[p + 4] == 1 && d[p + 5] == 0, "error_fields_zero");
    assert!(d[p + 6] == 0x30 && d[p + 7] == 9 && d[p + 8] == 0x30 && d[p + 9] == 7, "varbind_headers");
    assert!(d[p + 10] == 6 && d[p + 11] == 3 && d[p + 12] == 43 && d[p + 13] == x && d[p + 14] == 0, "oid");
    assert!(d[p + 15] == 5 && d[p + 16] == 0, "null_value");
    kani::cover!(il == 4, "four octet request id");
    kani::cover!(il == 1, "one octet request id");
    core::mem::forget(s);
    core::mem::forget(r);
}
