//! C03 (PDU level, real dependencies): PDUs built as structs and serialised by the real SnmpPdu::push_ber into a local
//! buffer == independent reference encoding.  (The same comparison behind Op::from_python in the model profile needs
//! 18 GB per query; here it takes seconds.  That from_python fills the struct as asked is `c03pdu::from_python_fields`.)
use super::spec::*;
use crate::ber::{BerEncoder, SnmpOid};
use crate::buf::Buffer;
use crate::snmp::get::SnmpGet;
use crate::snmp::getbulk::SnmpGetBulk;
use crate::snmp::msg::SnmpPdu;
use std::borrow::Cow;

fn expect_eq(buf: &Buffer, want: &W) {
    let d = buf.data();
    assert!(d.len() == want.n, "pdu_length");
    macro_rules! cmp8 {
        ($($k:expr),*) => { $( {
            let mut j = 0;
            while j < 8 {
                let i = $k * 8 + j;
                if i < want.n {
                    assert!(d[i] == want.b[i], "pdu_octets");
                }
                j += 1;
            }
        } )* };
    }
    cmp8!(0, 1, 2, 3, 4, 5, 6, 7);
}

fn varbind(o: &[u8]) -> W {
    let mut vb = W::new();
    vb.octets(0x06, o);
    vb.bytes(&[0x05, 0]);
    let mut w = W::new();
    w.tlv(0x30, &vb);
    w
}

//@ C03 quick | Get PDU with THREE OIDs (3 symbolic content octets each): serialised in the given order, each bound to NULL, error fields zero, tag a0, request-id 0x0102
#[kani::proof]
#[kani::unwind(10)]
#[kani::stub(alloc::fmt::format, stub_format)]
fn enc_get_three_oids_in_order() {
    let a: [u8; 3] = kani::any();
    let b: [u8; 3] = kani::any();
    let c: [u8; 3] = kani::any();
    let pdu = SnmpPdu::GetRequest(SnmpGet {
        request_id: 0x0102,
        vars: vec![SnmpOid(Cow::Borrowed(&a[..])), SnmpOid(Cow::Borrowed(&b[..])), SnmpOid(Cow::Borrowed(&c[..]))],
    });
    let mut buf = Buffer::default();
    pdu.push_ber(&mut buf).expect("fits");
    let mut vbs = W::new();
    vbs.append(&varbind(&a));
    vbs.append(&varbind(&b));
    vbs.append(&varbind(&c));
    let mut body = W::new();
    body.int(0x0102);
    body.int(0);
    body.int(0);
    body.tlv(0x30, &vbs);
    let mut want = W::new();
    want.tlv(0xa0, &body);
    expect_eq(&buf, &want);
    kani::cover!(a[0] != b[0] && b[0] != c[0], "three different oids");
    core::mem::forget(buf);
    core::mem::forget(pdu);
}

macro_rules! enc_getbulk {
    ($name:ident, $mr:expr) => {
        #[kani::proof]
        #[kani::unwind(10)]
        #[kani::stub(alloc::fmt::format, stub_format)]
        fn $name() {
            let a: [u8; 3] = kani::any();
            let pdu = SnmpPdu::GetBulkRequest(SnmpGetBulk { request_id: 0x7f, non_repeaters: 0, max_repetitions: $mr, vars: vec![SnmpOid(Cow::Borrowed(&a[..]))] });
            let mut buf = Buffer::default();
            pdu.push_ber(&mut buf).expect("fits");
            let mut vbs = W::new();
            vbs.append(&varbind(&a));
            let mut body = W::new();
            body.int(0x7f);
            body.int(0);
            body.int($mr);
            body.tlv(0x30, &vbs);
            let mut want = W::new();
            want.tlv(0xa5, &body);
            expect_eq(&buf, &want);
            kani::cover!(true, "encoded");
            core::mem::forget(buf);
            core::mem::forget(pdu);
        }
    };
}
//@ C03 quick | GetBulk PDU, max-repetitions 20: tag a5, request-id, non-repeaters 0, max-repetitions, the OID bound to NULL
enc_getbulk!(enc_getbulk_20, 20i64);
//@ C03 quick | GetBulk PDU, max-repetitions 128 (leading zero octet)
enc_getbulk!(enc_getbulk_128, 128i64);
//@ C03 quick | GetBulk PDU, max-repetitions 2^31-1
enc_getbulk!(enc_getbulk_max, 0x7fff_ffffi64);

//@ C03,C13 quick | discovery probe: Get PDU with an EMPTY varbind list: a0 .. 30 00
#[kani::proof]
#[kani::unwind(10)]
#[kani::stub(alloc::fmt::format, stub_format)]
fn enc_refresh() {
    let pdu = SnmpPdu::GetRequest(SnmpGet { request_id: 6, vars: Vec::new() });
    let mut buf = Buffer::default();
    pdu.push_ber(&mut buf).expect("fits");
    let mut body = W::new();
    body.int(6);
    body.int(0);
    body.int(0);
    body.tlv(0x30, &W::new());
    let mut want = W::new();
    want.tlv(0xa0, &body);
    expect_eq(&buf, &want);
    kani::cover!(true, "encoded");
    core::mem::forget(buf);
    core::mem::forget(pdu);
}
