// Kani proof harnesses over the real-dependency profile (codec, PDU, message, buffer layers).
#[path = "../common/spec.rs"]
pub mod spec;
pub mod c01;
pub mod c02;
pub mod c03;
pub mod c04;
pub mod c08;
pub mod c15;
pub mod c16;
pub mod c17;
