//! C08 - the OID sent is the OID asked for; invalid OID text is refused.
//!
//! Decomposition (a 2-symbolic-digit text query through str::split + u32::from_str did not finish in 420 s):
//!  (a) `arcs_N`: SnmpOid::try_from(&str) with `<u32 as FromStr>::from_str` STUBBED to return a harness script of
//!      arbitrary results (any u32 or a parse error) - decides first/second-arc limits and the base-128 encoding for
//!      EVERY arc value 0..2^32-1 and every error position, N = 2..5 arcs.
//!  (b) `text_*`: the real tokenizer (str::split(".") + u32::from_str, both Rust std, trusted) on concrete texts,
//!      valid and malformed, checked against the harness-side reference tokenizer (glue: split on '.', parse each part).
//!  (c) `oid_to_text_*` (in c02.rs): String::try_from(&SnmpOid) == decimal rendering for symbolic content.
use super::spec::*;
use crate::ber::SnmpOid;

pub const SCRIPT_N: usize = 5;
/// script of tokenizer results: (is_err, value)
pub static mut SCRIPT: [(bool, u32); SCRIPT_N] = [(false, 0); SCRIPT_N];
pub static mut SCRIPT_POS: usize = 0;

pub fn stub_u32_from_str(_s: &str) -> Result<u32, core::num::ParseIntError> {
    unsafe {
        let i = SCRIPT_POS;
        SCRIPT_POS += 1;
        if i < SCRIPT_N && !SCRIPT[i].0 {
            Ok(SCRIPT[i].1)
        } else {
            Err("".parse::<u8>().unwrap_err())
        }
    }
}

macro_rules! arcs_n {
    ($name:ident, $text:expr, $n:expr) => {
        #[kani::proof]
        #[kani::unwind(24)]
        #[kani::stub(<u32 as core::str::FromStr>::from_str, stub_u32_from_str)]
        fn $name() {
            let mut arcs = [0u32; MAX_ARCS];
            let mut first_err = $n;
            let mut i = 0;
            while i < $n {
                let e: bool = kani::any();
                let v: u32 = kani::any();
                unsafe { SCRIPT[i] = (e, v) };
                arcs[i] = v;
                if e && first_err == $n {
                    first_err = i;
                }
                i += 1;
            }
            let got = SnmpOid::try_from($text);
            let valid = first_err == $n && arcs[0] <= 2 && arcs[1] <= 39;
            match &got {
                Ok(o) => {
                    assert!(valid, "oid_invalid_arcs_accepted");
                    let (enc, k) = spec_encode_arcs(&arcs, $n);
                    assert!(o.0.len() == k, "oid_encoding_length");
                    let mut j = 0;
                    while j < 22 {
                        if j < k {
                            assert!(o.0[j] == enc[j], "oid_encoding_octets");
                        }
                        j += 1;
                    }
                    kani::cover!(k == 1 + 5 * ($n - 2), "all arcs need five octets");
                    kani::cover!(k == $n - 1, "all arcs one octet");
                }
                Err(_) => {
                    assert!(!valid, "oid_valid_arcs_refused");
                    kani::cover!(first_err == $n, "refused for arc limits");
                }
            }
            core::mem::forget(got);
        }
    };
}
//@ C08 quick | try_from on 2 arcs: every (u32|parse error) for each arc; first<=2, second<=39 else refused
arcs_n!(arcs_2, "0.0", 2);
//@ C08,C15 quick | try_from on 3 arcs: every (u32|parse error) per arc; encoding == canonical base-128
arcs_n!(arcs_3, "0.0.0", 3);
//@ C08,C15 quick | try_from on 4 arcs: every (u32|parse error) per arc
arcs_n!(arcs_4, "0.0.0.0", 4);
//@ C08 thorough | try_from on 5 arcs: every (u32|parse error) per arc
arcs_n!(arcs_5, "0.0.0.0.0", 5);

/// Concrete text through the REAL tokenizer vs the reference tokenizer.
fn check_oid_text(s: &[u8]) -> bool {
    let txt = unsafe { core::str::from_utf8_unchecked(s) };
    let got = SnmpOid::try_from(txt);
    let want = spec_parse_oid(s);
    let ok = match (&got, &want) {
        (Ok(o), Some((arcs, n, _strict))) => {
            let (enc, k) = spec_encode_arcs(arcs, *n);
            assert!(o.0.len() == k, "oid_text_encoding_length");
            let mut i = 0;
            while i < k {
                assert!(o.0[i] == enc[i], "oid_text_encoding_octets");
                i += 1;
            }
            true
        }
        (Ok(_), None) => panic!("oid_text_invalid_accepted"),
        (Err(_), Some((_, _, strict))) => {
            assert!(!*strict, "oid_text_valid_refused");
            false
        }
        (Err(_), None) => false,
    };
    core::mem::forget(got);
    ok
}

//@ C08 quick | real tokenizer on malformed concrete texts: "", "1", "1.", ".1", "1..3", "-1.3", "1.3 ", "1.x", "1.3.4294967296", "3.1", "1.40", "6.39"
#[kani::proof]
#[kani::unwind(16)]
fn text_malformed() {
    let mut any_ok = false;
    any_ok |= check_oid_text(b"");
    any_ok |= check_oid_text(b"1");
    any_ok |= check_oid_text(b"1.");
    any_ok |= check_oid_text(b".1");
    any_ok |= check_oid_text(b"1..3");
    any_ok |= check_oid_text(b"-1.3");
    any_ok |= check_oid_text(b"1.3 ");
    any_ok |= check_oid_text(b"1.x");
    any_ok |= check_oid_text(b"1.3.4294967296");
    any_ok |= check_oid_text(b"3.1");
    any_ok |= check_oid_text(b"1.40");
    any_ok |= check_oid_text(b"6.39");
    assert!(!any_ok, "malformed_text_accepted");
    kani::cover!(true, "all refused");
}

macro_rules! text_ok {
    ($name:ident, $t:expr) => {
        #[kani::proof]
        #[kani::unwind(24)]
        fn $name() {
            assert!(check_oid_text($t), "valid_text_refused");
            kani::cover!(true, "accepted");
        }
    };
}
//@ C08 quick | real tokenizer on the valid text "0.0"
text_ok!(text_valid_00, b"0.0");
//@ C08 quick | real tokenizer on the valid text "2.39"
text_ok!(text_valid_239, b"2.39");
//@ C08 quick | real tokenizer on the valid text "1.3.6.1.2.1"
text_ok!(text_valid_mib2, b"1.3.6.1.2.1");
//@ C08 quick | real tokenizer on the valid text "1.3.127.128"
text_ok!(text_valid_127, b"1.3.127.128");
//@ C08 quick | real tokenizer on the valid text "1.3.16383.16384"
text_ok!(text_valid_16383, b"1.3.16383.16384");
//@ C08 thorough optional | real tokenizer on the valid text "1.3.2097151.2097152"
text_ok!(text_valid_2m, b"1.3.2097151.2097152");
//@ C08 thorough optional | real tokenizer on the valid text "1.3.268435455.268435456"
text_ok!(text_valid_268m, b"1.3.268435455.268435456");
//@ C08 quick | real tokenizer on the valid text "1.3.4294967295"
text_ok!(text_valid_u32max, b"1.3.4294967295");
