//! C01 - receive path is total: leaf decoders on every byte string up to N octets.
//! Stubs: alloc::fmt::format (S1).
use super::spec::*;
use crate::ber::*;

macro_rules! hdr_total {
    (@covers 2, $b:ident, $t:ident, $h:ident) => {};
    (@covers $n:tt, $b:ident, $t:ident, $h:ident) => {
        kani::cover!($h.length > 0, "ok with content");
        kani::cover!($b.len() - $t.len() > 2, "long form or high tag");
    };
    ($name:ident, $n:tt) => {
        #[kani::proof]
        #[kani::unwind(26)]
        fn $name() {
            let b: [u8; $n] = kani::any();
            let r = BerHeader::from_ber(&b);
            if let Ok((t, h)) = &r {
                // contract used by every caller: `&tail[hdr.length..]` / `&i[..h.length]`
                assert!(h.length <= t.len(), "hdr_length_within_tail");
                assert!(t.len() + 2 <= b.len(), "hdr_consumes_at_least_two");
                hdr_total!(@covers $n, b, t, h);
                kani::cover!(true, "accepted");
            }
            kani::cover!(r.is_err(), "rejected");
            core::mem::forget(r);
        }
    };
}
//@ C01,C16 quick | BerHeader::from_ber on every byte string of length 2
hdr_total!(hdr_total_2, 2);
//@ C01,C16 quick | BerHeader::from_ber on every byte string of length 3
hdr_total!(hdr_total_3, 3);
//@ C01,C16 quick | BerHeader::from_ber on every byte string of length 5
hdr_total!(hdr_total_5, 5);
//@ C01,C16 quick | BerHeader::from_ber on every byte string of length 8
hdr_total!(hdr_total_8, 8);
//@ C01,C16 thorough | BerHeader::from_ber on every byte string of length 16
hdr_total!(hdr_total_16, 16);
//@ C01,C16 thorough | BerHeader::from_ber on every byte string of length 24
hdr_total!(hdr_total_24, 24);
