//! C01 - receive path is total: leaf decoders on every byte string up to N octets.
//! Stubs: alloc::fmt::format (S1).
use super::spec::*;
use crate::ber::*;

macro_rules! hdr_total {
    (@covers 2, $b:ident, $t:ident, $h:ident) => {};
    (@covers $n:tt, $b:ident, $t:ident, $h:ident) => {
        kani::cover!($h.length > 0, "ok with content");
        kani::cover!($b.len() - $t.len() > 2, "long form or high tag");
    };
    ($name:ident, $n:tt) => {
        #[kani::proof]
        #[kani::unwind(26)]
        fn $name() {
            let b: [u8; $n] = kani::any();
            let r = BerHeader::from_ber(&b);
            if let Ok((t, h)) = &r {
                // contract used by every caller: `&tail[hdr.length..]` / `&i[..h.length]`
                assert!(h.length <= t.len(), "hdr_length_within_tail");
                // C16: the length is the DECLARED one (reference reading of the length octets), not a wrapped/truncated one
                if let Some((hl, declared)) = spec_header(&b) {
                    assert!(b.len() - t.len() == hl, "hdr_consumes_exactly_the_header");
                    assert!(h.length as u128 == declared, "hdr_length_is_declared_length");
                }
                assert!(t.len() + 2 <= b.len(), "hdr_consumes_at_least_two");
                hdr_total!(@covers $n, b, t, h);
                kani::cover!(true, "accepted");
            }
            kani::cover!(r.is_err(), "rejected");
            core::mem::forget(r);
        }
    };
}
//@ C01,C16 quick | BerHeader::from_ber on every byte string of length 2
hdr_total!(hdr_total_2, 2);
//@ C01,C16 quick | BerHeader::from_ber on every byte string of length 3
hdr_total!(hdr_total_3, 3);
//@ C01,C16 quick | BerHeader::from_ber on every byte string of length 5
hdr_total!(hdr_total_5, 5);
//@ C01,C16 quick | BerHeader::from_ber on every byte string of length 8
hdr_total!(hdr_total_8, 8);
//@ C01,C16 quick | BerHeader::from_ber on every byte string of length 12 (up to 9 length octets)
hdr_total!(hdr_total_12, 12);
//@ C01,C16 thorough | BerHeader::from_ber on every byte string of length 16
hdr_total!(hdr_total_16, 16);
//@ C01,C16 thorough | BerHeader::from_ber on every byte string of length 24
hdr_total!(hdr_total_24, 24);

macro_rules! typed_total {
    ($name:ident, $t:ty, $n:tt) => {
        #[kani::proof]
        #[kani::unwind(14)]
        #[kani::stub(alloc::fmt::format, stub_format)]
        fn $name() {
            let b: [u8; $n] = kani::any();
            let r = <$t>::from_ber(&b);
            if let Ok((t, _)) = &r {
                assert!(t.len() + 2 <= b.len(), "typed_consumes_at_least_header");
                kani::cover!(true, "accepted");
            }
            kani::cover!(r.is_err(), "rejected");
            core::mem::forget(r);
        }
    };
}
//@ C01 quick | SnmpInt::from_ber on every byte string of length 6
typed_total!(int_total_6, SnmpInt, 6);
//@ C01 quick | SnmpInt::from_ber on every byte string of length 11 (content up to 9 octets)
typed_total!(int_total_11, SnmpInt, 11);
//@ C01 quick | SnmpBool::from_ber on every byte string of length 6
typed_total!(bool_total_6, SnmpBool, 6);
//@ C01 quick | SnmpNull::from_ber on every byte string of length 6
typed_total!(null_total_6, SnmpNull, 6);
//@ C01 quick | SnmpOctetString::from_ber on every byte string of length 6
typed_total!(octets_total_6, SnmpOctetString, 6);
//@ C01 quick | SnmpOid::from_ber on every byte string of length 6
typed_total!(oid_total_6, SnmpOid, 6);
//@ C01 quick | SnmpRelativeOid::from_ber on every byte string of length 6
typed_total!(reloid_total_6, SnmpRelativeOid, 6);
//@ C01 quick | SnmpObjectDescriptor::from_ber on every byte string of length 6
typed_total!(objdesc_total_6, SnmpObjectDescriptor, 6);
//@ C01 quick | SnmpIpAddress::from_ber on every byte string of length 7
typed_total!(ip_total_7, SnmpIpAddress, 7);
//@ C01 quick | SnmpCounter32::from_ber on every byte string of length 8
typed_total!(c32_total_8, SnmpCounter32, 8);
//@ C01 quick | SnmpGauge32::from_ber on every byte string of length 8
typed_total!(g32_total_8, SnmpGauge32, 8);
//@ C01 quick | SnmpTimeTicks::from_ber on every byte string of length 8
typed_total!(tt_total_8, SnmpTimeTicks, 8);
//@ C01 quick | SnmpUInteger32::from_ber on every byte string of length 8
typed_total!(u32_total_8, SnmpUInteger32, 8);
//@ C01 quick | SnmpCounter64::from_ber on every byte string of length 12
typed_total!(c64_total_12, SnmpCounter64, 12);
//@ C01 quick | SnmpOpaque::from_ber on every byte string of length 6
typed_total!(opaque_total_6, SnmpOpaque, 6);
//@ C01 quick | SnmpSequence::from_ber on every byte string of length 6
typed_total!(seq_total_6, SnmpSequence, 6);
//@ C01 quick | SnmpOption::from_ber on every byte string of length 6
typed_total!(option_total_6, SnmpOption, 6);

macro_rules! real_total {
    ($name:ident, $n:tt) => {
        #[kani::proof]
        #[kani::unwind(14)]
        #[kani::stub(alloc::fmt::format, stub_format)]
        #[kani::stub(<f64 as core::str::FromStr>::from_str, stub_f64_from_str)]
        #[kani::stub(core::str::from_utf8, stub_from_utf8)]
        fn $name() {
            let b: [u8; $n] = kani::any();
            let r = SnmpReal::from_ber(&b);
            kani::cover!(r.is_ok(), "accepted");
            kani::cover!(r.is_err(), "rejected");
            core::mem::forget(r);
        }
    };
}
//@ C01 quick | SnmpReal::from_ber on every byte string of length 5 (f64 parser, from_utf8 stubbed)
real_total!(real_total_5, 5);
//@ C01 thorough | SnmpReal::from_ber on every byte string of length 9 (f64 parser, from_utf8 stubbed)
real_total!(real_total_9, 9);

macro_rules! value_total {
    ($name:ident, $n:tt) => {
        #[kani::proof]
        #[kani::unwind(14)]
        #[kani::stub(alloc::fmt::format, stub_format)]
        #[kani::stub(<f64 as core::str::FromStr>::from_str, stub_f64_from_str)]
        #[kani::stub(core::str::from_utf8, stub_from_utf8)]
        fn $name() {
            let b: [u8; $n] = kani::any();
            let r = crate::snmp::value::SnmpValue::from_ber(&b);
            kani::cover!(r.is_ok(), "accepted");
            kani::cover!(r.is_err(), "rejected");
            core::mem::forget(r);
        }
    };
}
//@ C01 quick | SnmpValue::from_ber (all 17 value kinds) on every byte string of length 6
value_total!(value_total_6, 6);
//@ C01 thorough | SnmpValue::from_ber on every byte string of length 11
value_total!(value_total_11, 11);

//@ C01 quick | RELATIVE-OID name: SnmpRelativeOid::from_ber + normalize against ANY base OID of 1..4 octets, relative content of 0..4 arbitrary octets: returns, never panics
#[kani::proof]
#[kani::unwind(8)]
#[kani::stub(alloc::fmt::format, stub_format)]
fn reloid_normalize_total() {
    let rel: [u8; 4] = kani::any();
    let rn: usize = kani::any();
    kani::assume(rn <= 4);
    let tlv = [0x0du8, rn as u8, rel[0], rel[1], rel[2], rel[3]];
    let base: [u8; 4] = kani::any();
    let bn: usize = kani::any();
    kani::assume(bn >= 1 && bn <= 4);
    let b = SnmpOid::from(base[..bn].to_vec());
    if let Ok((_, r)) = SnmpRelativeOid::from_ber(&tlv[..2 + rn]) {
        let n = r.normalize(&b);
        kani::cover!(n.0.len() > bn, "longer than base");
        kani::cover!(rn == 0, "empty relative oid");
        core::mem::forget(n);
    }
    core::mem::forget(b);
}
