use super::spec::*;
use crate::ber::*;
use crate::buf::Buffer;

#[kani::proof]
#[kani::unwind(11)]
fn e1_push_only() {
    let v: i64 = kani::any();
    kani::assume(v < 0);
    let mut buf = Buffer::default();
    let si: SnmpInt = v.into();
    let r = si.push_ber(&mut buf);
    assert!(r.is_ok());
    let (_, n) = spec_int_content(v);
    assert!(buf.len() == n + 2);
    core::mem::forget(buf);
}
#[kani::proof]
#[kani::unwind(11)]
fn e2_push_read() {
    let v: i64 = kani::any();
    kani::assume(v < 0);
    let mut buf = Buffer::default();
    let si: SnmpInt = v.into();
    let r = si.push_ber(&mut buf);
    assert!(r.is_ok());
    let (be, n) = spec_int_content(v);
    assert!(buf.len() == n + 2);
    let d = buf.data();
    assert!(d[0] == 2);
    assert!(d[1] as usize == n);
    assert!(d[n+1] == be[7]);
    core::mem::forget(buf);
}
#[kani::proof]
#[kani::unwind(11)]
fn e3_u8_only() {
    let k: u8 = kani::any();
    kani::assume(k < 9);
    let mut buf = Buffer::default();
    let mut i = 0;
    while i < k { buf.push_u8(i).unwrap(); i += 1; }
    assert!(buf.len() == k as usize);
    let d = buf.data();
    if k > 0 { assert!(d[0] == k - 1); }
    core::mem::forget(buf);
}
