//! C04 (decode level) - a datagram that does not decode as the session's version is rejected: the version field is
//! compared as an INTEGER, not truncated.
use super::spec::*;
use crate::snmp::msg::{SnmpV1Message, SnmpV2cMessage};

macro_rules! version_check {
    ($name:ident, $msg:ident, $ver:expr) => {
        #[kani::proof]
        #[kani::unwind(6)]
        #[kani::stub(alloc::fmt::format, stub_format)]
        #[kani::stub(<f64 as core::str::FromStr>::from_str, stub_f64_from_str)]
        #[kani::stub(core::str::from_utf8, stub_from_utf8)]
        fn $name() {
            let vh: u8 = kani::any();
            let vl: u8 = kani::any();
            let rid: u8 = kani::any();
            // SEQUENCE { version INTEGER (2 octets), community "c", GetResponse { rid, 0, 0, {} } }
            let b = [0x30u8, 20, 0x02, 2, vh, vl, 0x04, 1, b'c', 0xa2, 11, 0x02, 1, rid, 0x02, 1, 0, 0x02, 1, 0, 0x30, 0];
            let r = $msg::try_from(&b[..]);
            let value = i16::from_be_bytes([vh, vl]) as i64;
            if r.is_ok() {
                assert!(value == $ver, "foreign_version_accepted");
                kani::cover!(true, "accepted");
            } else {
                assert!(value != $ver, "own_version_rejected");
                kani::cover!(vl == $ver && vh != 0, "version congruent modulo 256 rejected");
            }
            core::mem::forget(r);
        }
    };
}
//@ C04 quick | v2c message with ANY 2-octet version INTEGER: accepted <=> version == 1 (257, -255 ... rejected)
version_check!(version_check_v2c, SnmpV2cMessage, 1);
//@ C04 quick | v1 message with ANY 2-octet version INTEGER: accepted <=> version == 0
version_check!(version_check_v1, SnmpV1Message, 0);
