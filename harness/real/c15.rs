//! C15 - everything the library encodes it decodes back unchanged, and the encoding is minimal.
//! INTEGER: split into (a) encoder output == harness-side minimal two's complement encoder for EVERY i64 (here),
//! (b) decoder(content) == two's complement value for EVERY content of 1..8 octets (c02::int_value_*, shared),
//! (c) oracle consistency spec_int(spec_int_content(v)) == v (here).  (a)+(b)+(c) => decode(encode(v)) == v, no rest.
//! Buffer capacity is 160 in this build (hook gufo_snmp_verif); the buffer code is parametric in the capacity.
use super::spec::*;
use crate::ber::*;
use crate::buf::Buffer;

fn int_encodes_minimally(v: i64) {
    let mut buf = Buffer::default();
    let si: SnmpInt = v.into();
    si.push_ber(&mut buf).expect("fits an empty buffer");
    let (be, n) = spec_int_content(v);
    let d = buf.data();
    assert!(d.len() == n + 2, "int_encoding_minimal_length");
    assert!(d[0] == 0x02 && d[1] as usize == n, "int_encoding_header");
    let mut i = 0;
    while i < n {
        assert!(d[2 + i] == be[8 - n + i], "int_encoding_content");
        i += 1;
    }
    core::mem::forget(buf);
}

//@ C15 quick | SnmpInt::push_ber == minimal two's complement TLV for EVERY v in 0 ..= i64::MAX
#[kani::proof]
#[kani::unwind(11)]
fn int_enc_all_nonneg() {
    let v: i64 = kani::any();
    kani::assume(v >= 0);
    kani::cover!(v == i64::MAX, "max");
    kani::cover!(v == 128, "needs a leading zero octet");
    int_encodes_minimally(v);
}

//@ C15 quick | SnmpInt::push_ber == minimal two's complement TLV for EVERY v in i64::MIN ..= -1
#[kani::proof]
#[kani::unwind(11)]
fn int_enc_all_neg() {
    let v: i64 = kani::any();
    kani::assume(v < 0);
    kani::cover!(v == i64::MIN, "min");
    kani::cover!(v == -129, "needs a leading ff octet");
    int_encodes_minimally(v);
}

//@ C15 quick | oracle consistency: spec_int(spec_int_content(v)) == v for every i64 (no repository code)
#[kani::proof]
#[kani::unwind(10)]
fn int_spec_consistent() {
    let v: i64 = kani::any();
    let (be, n) = spec_int_content(v);
    assert!(n >= 1 && n <= 8, "spec_len");
    assert!(spec_int(&be[8 - n..]) == v, "spec_roundtrip");
    kani::cover!(n == 8, "eight octets");
    kani::cover!(n == 1, "one octet");
}
