//! C16 - decoding an element reads exactly its declared extent (composite layers) + C01 message-level totality.
//! Concrete well-formed frames with a few symbolic octets: tampered inner lengths, trailing octets, and
//! "well-formed prefix up to position p followed by n unconstrained octets" (DESIGN.md section 4, item 2).
//! Element-level extent (value independent of what follows, rest == following octets) is asserted in c02.rs for every
//! typed decoder; header-level declared length in c01.rs.
use super::spec::*;
use crate::ber::*;
use crate::snmp::msg::{SnmpV1Message, SnmpV2cMessage, SnmpV3Message};
use crate::snmp::value::SnmpValue;

/// v2c GetResponse: community "pub", request id 4 octets, one varbind 1.3.6 = INTEGER (4 octets)
pub const V2C_RESP: [u8; 39] = [
    0x30, 37, 0x02, 1, 1, 0x04, 3, b'p', b'u', b'b', 0xa2, 27, 0x02, 4, 1, 2, 3, 4, 0x02, 1, 0, 0x02, 1, 0, 0x30, 13, 0x30, 11, 0x06, 3, 43, 6, 1, 0x02, 4, 9, 9, 9, 9,
];
/// v3 noAuthNoPriv Get (the repository's own test vector), user "admin"
pub const V3_GET: [u8; 66] = [
    0x30, 0x40, 0x02, 0x01, 0x03, 0x30, 0x0f, 0x02, 0x03, 0x00, 0x91, 0xc8, 0x02, 0x02, 0x05, 0xdc, 0x04, 0x01, 0x00, 0x02, 0x01, 0x03, 0x04, 0x15, 0x30, 0x13, 0x04, 0x00,
    0x02, 0x01, 0x00, 0x02, 0x01, 0x00, 0x04, 0x05, 0x61, 0x64, 0x6d, 0x69, 0x6e, 0x04, 0x00, 0x04, 0x00, 0x30, 0x13, 0x04, 0x00, 0x04, 0x00, 0xa0, 0x0d, 0x02, 0x03, 0x00,
    0x91, 0xc8, 0x02, 0x01, 0x00, 0x02, 0x01, 0x00, 0x30, 0x00,
];

/// Compile-time copy of the first `take` octets of `a` into a zeroed array of M octets.  Harness buffers are built
/// as CONSTANTS and symbolic octets are then stored by index: after a run-time `copy_from_slice` CBMC no longer
/// constant-folds the frame, and every header parse explores its long-form loops (measured: timeouts).
pub const fn frame<const N: usize, const M: usize>(a: [u8; N], take: usize) -> [u8; M] {
    let mut out = [0u8; M];
    let mut i = 0;
    while i < take && i < M {
        out[i] = a[i];
        i += 1;
    }
    out
}

macro_rules! std_stubs_harness {
    ($(#[$m:meta])* fn $name:ident() $body:block) => {
        $(#[$m])*
        #[kani::proof]
        #[kani::unwind(8)]
        #[kani::stub(alloc::fmt::format, stub_format)]
        #[kani::stub(<f64 as core::str::FromStr>::from_str, stub_f64_from_str)]
        #[kani::stub(core::str::from_utf8, stub_from_utf8)]
        #[kani::stub(f64::powi, stub_powi)]
        fn $name() $body
    };
}

macro_rules! over_length {
    ($name:ident, $idx:expr) => {
        over_length!($name, $idx, kani::any());
    };
    ($name:ident, $idx:expr, $d:expr) => {
        std_stubs_harness! {
        fn $name() {
            let mut b = V2C_RESP;
            let d: u8 = $d;
            kani::assume(d >= 1 && d <= 4);
            // the element ends where its parent ends, so any increase overruns the parent
            b[$idx] += d;
            let r = SnmpV2cMessage::try_from(&b[..]);
            assert!(r.is_err(), "inner_length_past_enclosing_element_accepted");
            kani::cover!(d == 1, "one octet too long");
            core::mem::forget(r);
        }
        }
    };
}
//@ C16 quick | v2c GetResponse frame, PDU length increased by 1 (runs past the message): rejected
over_length!(over_length_pdu_1, 11, 1);
//@ C16 quick | v2c GetResponse frame, varbind-list length increased by 1 (runs past the PDU): rejected
over_length!(over_length_vbl_1, 25, 1);
//@ C16 quick | v2c GetResponse frame, varbind length increased by 1 (runs past the varbind list): rejected
over_length!(over_length_vb_1, 27, 1);
//@ C16 thorough timeout=3000 optional | v2c GetResponse frame, PDU length increased by 1..4: rejected
over_length!(over_length_pdu, 11);
//@ C16 thorough timeout=3000 optional | v2c GetResponse frame, varbind-list length increased by 1..4: rejected
over_length!(over_length_vbl, 25);
//@ C16 thorough timeout=3000 optional | v2c GetResponse frame, varbind length increased by 1..4: rejected
over_length!(over_length_vb, 27);
//@ C16 quick | v2c GetResponse frame, value length increased by 1..4 (runs past the varbind): rejected
over_length!(over_length_value, 34);

std_stubs_harness! {
//@ C16 quick | v2c GetResponse frame whose OID length is increased so that the OID swallows the value: the varbind must be rejected (no value left / value misparsed), never read past the varbind
fn over_length_inner_oid() {
    let mut b = V2C_RESP;
    let d: u8 = kani::any();
    kani::assume(d >= 7 && d <= 12); // 3 + d > 9 = octets left in the varbind
    b[29] = 3 + d;
    let r = SnmpV2cMessage::try_from(&b[..]);
    assert!(r.is_err(), "oid_length_past_varbind_accepted");
    kani::cover!(true, "rejected");
    core::mem::forget(r);
}
}

macro_rules! trailing {
    ($name:ident, $msg:ident, $frame:expr, $n:expr, $ver:expr) => {
        std_stubs_harness! {
        fn $name() {
            const F: [u8; $n + 2] = frame($frame, $n);
            let mut b = F;
            if $ver != 9 { b[4] = $ver; }
            b[$n] = kani::any();
            b[$n + 1] = kani::any();
            let r = $msg::try_from(&b[..]);
            assert!(r.is_err(), "octets_after_top_level_message_accepted");
            kani::cover!(true, "rejected");
            core::mem::forget(r);
        }
        }
    };
}
//@ C16 quick | v2c message followed by 2 arbitrary octets after the top-level SEQUENCE: rejected
trailing!(trailing_v2c, SnmpV2cMessage, V2C_RESP, 39, 1);
//@ C16 quick | v1 message followed by 2 arbitrary octets: rejected
trailing!(trailing_v1, SnmpV1Message, V2C_RESP, 39, 0);
//@ C16 thorough timeout=3000 optional | v3 message followed by 2 arbitrary octets: rejected
trailing!(trailing_v3, SnmpV3Message, V3_GET, 66, 9);

std_stubs_harness! {
//@ C16 quick | binary REAL element (concrete exponent/mantissa) followed by two DIFFERENT arbitrary tails: identical value, rest == the tail
fn real_two_tails() {
    let t1: [u8; 2] = kani::any();
    let t2: [u8; 2] = kani::any();
    let b1 = [0x09u8, 3, 0x80, 0x01, 0x03, t1[0], t1[1]];
    let b2 = [0x09u8, 3, 0x80, 0x01, 0x03, t2[0], t2[1]];
    let r1 = SnmpValue::from_ber(&b1);
    let r2 = SnmpValue::from_ber(&b2);
    match (&r1, &r2) {
        (Ok((ta, SnmpValue::Real(_))), Ok((tb, SnmpValue::Real(_)))) => {
            assert!(ta.len() == 2 && tb.len() == 2 && ta[0] == t1[0] && tb[1] == t2[1], "real_rest_is_tail");
        }
        _ => panic!("real_rejected"),
    }
    let (f1, f2) = match (r1, r2) {
        (Ok((_, SnmpValue::Real(a))), Ok((_, SnmpValue::Real(b)))) => {
            let x: f64 = a.into();
            let y: f64 = b.into();
            (x, y)
        }
        _ => (0.0, 1.0),
    };
    assert!(f1.to_bits() == f2.to_bits(), "real_value_depends_on_following_octets");
    kani::cover!(t1[0] != t2[0], "different tails");
}
}

// ---- C01: message-level totality, "well-formed prefix + n unconstrained octets" -------------------------------

macro_rules! v2c_prefix_tail {
    ($name:ident, $p:expr, $n:expr) => {
        std_stubs_harness! {
        fn $name() {
            // the first $p octets of the well-formed frame, then $n unconstrained octets; the outer length covers them
            const F: [u8; $p + $n] = frame(V2C_RESP, $p);
            let mut b = F;
            // every enclosing element is re-sized to end exactly where the buffer ends
            b[1] = ($p + $n - 2) as u8;
            if $p >= 12 { b[11] = ($p + $n - 12) as u8; }
            if $p >= 26 { b[25] = ($p + $n - 26) as u8; }
            if $p >= 28 { b[27] = ($p + $n - 28) as u8; }
            let mut i = 0;
            while i < $n {
                b[$p + i] = kani::any();
                i += 1;
            }
            let r = SnmpV2cMessage::try_from(&b[..]);
            kani::cover!(r.is_err(), "rejected");
            kani::cover!(true, "returned");
            core::mem::forget(r);
        }
        }
    };
}
//@ C01 thorough timeout=3000 optional | v2c decoder: well-formed prefix up to the PDU tag (version, community), then 4 unconstrained octets: returns, no panic
v2c_prefix_tail!(v2c_tail_at_pdu_4, 10, 4);
//@ C01 thorough timeout=3600 optional | v2c decoder: prefix up to the PDU header (a2 len), then 3 unconstrained octets (request-id position); all enclosing lengths re-sized
v2c_prefix_tail!(v2c_tail_at_rid_3, 12, 3);
//@ C01 thorough timeout=3600 optional | v2c decoder: prefix up to error-status, then 3 unconstrained octets
v2c_prefix_tail!(v2c_tail_at_err_3, 18, 3);
//@ C01 thorough timeout=3600 optional | v2c decoder: prefix up to the varbind list, then 3 unconstrained octets
v2c_prefix_tail!(v2c_tail_at_vbl_3, 24, 3);
//@ C01 thorough timeout=3600 optional | v2c decoder: prefix up to the first varbind, then 2 unconstrained octets (reaches the empty varbind 30 00)
v2c_prefix_tail!(v2c_tail_at_vb_2, 26, 2);
//@ C01 thorough timeout=3600 optional | v2c decoder: prefix up to the first varbind, then 3 unconstrained octets
v2c_prefix_tail!(v2c_tail_at_vb_3, 26, 3);
//@ C01 thorough timeout=3000 optional | v2c decoder: prefix up to the varbind list, then 4 unconstrained octets
v2c_prefix_tail!(v2c_tail_at_vbl_4, 24, 4);
//@ C01 thorough timeout=3000 optional | v2c decoder: prefix up to the first varbind, then 4 unconstrained octets
v2c_prefix_tail!(v2c_tail_at_vb_4, 26, 4);
//@ C01 quick | v2c decoder: prefix up to the varbind name, then 4 unconstrained octets
v2c_prefix_tail!(v2c_tail_at_name_4, 28, 4);
//@ C01 quick | v2c decoder: prefix up to the varbind value, then 4 unconstrained octets
v2c_prefix_tail!(v2c_tail_at_value_4, 33, 4);
//@ C01 thorough | v2c decoder: prefix up to the varbind list, then 6 unconstrained octets
v2c_prefix_tail!(v2c_tail_at_vbl_6, 24, 6);
//@ C01 thorough | v2c decoder: prefix up to the varbind value, then 7 unconstrained octets
v2c_prefix_tail!(v2c_tail_at_value_7, 33, 7);

std_stubs_harness! {
//@ C07,C02 thorough timeout=5400 optional | GetResponse with three varbinds: absolute name, RELATIVE-OID changing two trailing arcs, RELATIVE-OID changing the last arc: every relative name resolves against the PRECEDING varbind's name; values keep their positions
fn getresponse_relative_chain() {
    use crate::snmp::getresponse::SnmpGetResponse;
    // x, y concrete (a symbolic chain of three did not finish in 900 s), the last arc symbolic
    let x: u8 = 11;
    let y: u8 = 1;
    let z: u8 = kani::any();
    kani::assume(z < 128);
    // PDU body: rid, err, err, varbinds { 1.3.6.1.10.11 = 1 ; rel (x.y) = 2 ; rel (z) = 3 }
    let b = [
        0x02u8, 1, 5, 0x02, 1, 0, 0x02, 1, 0, 0x30, 29,
        0x30, 10, 0x06, 5, 43, 6, 1, 10, 11, 0x02, 1, 1,
        0x30, 7, 0x0d, 2, x, y, 0x02, 1, 2,
        0x30, 6, 0x0d, 1, z, 0x02, 1, 3,
    ];
    let r = SnmpGetResponse::try_from(&b[..]).expect("well-formed response decodes");
    assert!(r.request_id == 5 && r.vars.len() == 3, "three_varbinds");
    let n0: &[u8] = &r.vars[0].oid.0;
    let n1: &[u8] = &r.vars[1].oid.0;
    let n2: &[u8] = &r.vars[2].oid.0;
    assert!(n0 == &[43u8, 6, 1, 10, 11][..], "absolute_name");
    assert!(n1.len() == 5 && n1[..3] == [43u8, 6, 1][..] && n1[3] == x && n1[4] == y, "relative_name_replaces_trailing_arcs_of_previous");
    assert!(n2.len() == 5 && n2[3] == x && n2[4] == z, "relative_name_resolves_against_the_preceding_varbind");
    kani::cover!(x != 10, "second varbind changed a higher arc");
    core::mem::forget(r);
}
}

macro_rules! v2c_short_varbind {
    ($name:ident, $k:tt, [$($content:expr),*]) => {
        std_stubs_harness! {
        fn $name() {
            // frame up to the varbind list, then ONE varbind of $k content octets (lengths concrete, content symbolic)
            const P: usize = 24;
            const F: [u8; P + 4 + $k] = frame(V2C_RESP, P);
            let mut b = F;
            b[1] = (P + 4 + $k - 2) as u8;
            b[11] = (P + 4 + $k - 12) as u8;
            b[P] = 0x30;
            b[P + 1] = (2 + $k) as u8;
            b[P + 2] = 0x30;
            b[P + 3] = $k as u8;
            let c: [u8; $k] = [$($content),*];
            let mut i = 0;
            while i < $k {
                b[P + 4 + i] = c[i];
                i += 1;
            }
            let r = SnmpV2cMessage::try_from(&b[..]);
            assert!(r.is_err(), "truncated_varbind_accepted");
            kani::cover!(true, "rejected");
            core::mem::forget(r);
        }
        }
    };
}
//@ C01 quick timeout=900 | v2c GetResponse whose only varbind is EMPTY (30 00): rejected, no panic
v2c_short_varbind!(v2c_varbind_empty, 0, []);
//@ C01 quick timeout=900 | v2c GetResponse whose only varbind holds ONE arbitrary octet: rejected, no panic
v2c_short_varbind!(v2c_varbind_1, 1, [kani::any()]);
//@ C01 quick timeout=900 | v2c GetResponse whose only varbind holds TWO arbitrary octets: rejected, no panic
v2c_short_varbind!(v2c_varbind_2, 2, [kani::any(), kani::any()]);

/// V3_GET with the msgFlags OCTET STRING replaced by one of `k` octets (content `fill`), enclosing lengths adjusted.
pub const fn v3_with_flags<const M: usize>(k: usize, fill: u8) -> [u8; M] {
    let mut out = [0u8; M];
    let mut i = 0;
    // up to and including the msgFlags tag (index 16)
    while i < 17 {
        out[i] = V3_GET[i];
        i += 1;
    }
    out[1] = (V3_GET[1] as usize + k - 1) as u8;
    out[6] = (V3_GET[6] as usize + k - 1) as u8;
    out[17] = k as u8;
    let mut j = 0;
    while j < k {
        out[18 + j] = fill;
        j += 1;
    }
    // the rest of the message after the original 1-octet content (index 19..)
    let mut s = 19;
    while s < 66 {
        out[18 + k + s - 19] = V3_GET[s];
        s += 1;
    }
    out
}

macro_rules! v3_flags_len {
    ($name:ident, $k:expr, $m:expr) => {
        std_stubs_harness! {
        fn $name() {
            const F: [u8; $m] = v3_with_flags::<$m>($k, 0);
            let mut b = F;
            let mut j = 0;
            while j < $k {
                b[18 + j] = kani::any();
                j += 1;
            }
            let r = SnmpV3Message::try_from(&b[..]);
            if $k != 1 {
                assert!(r.is_err(), "msgflags_of_wrong_size_accepted");
            } else {
                assert!(r.is_ok(), "well_formed_v3_rejected");
            }
            kani::cover!(true, "returned");
            core::mem::forget(r);
        }
        }
    };
}
//@ C01 quick timeout=900 | v3 message whose msgFlags OCTET STRING is EMPTY: rejected, no panic
v3_flags_len!(v3_flags_len_0, 0, 65);
//@ C01 thorough timeout=5400 optional | v3 message with a 1-octet msgFlags of any value: accepted (control)
v3_flags_len!(v3_flags_len_1, 1, 66);
//@ C01 thorough timeout=5400 optional | v3 message whose msgFlags has 2 arbitrary octets: rejected
v3_flags_len!(v3_flags_len_2, 2, 67);

std_stubs_harness! {
//@ C16 quick | PDU wrapper (SnmpOption): a2 03 x y z followed by two arbitrary octets: value is exactly the 3 content octets, rest exactly the 2 following octets
fn option_extent() {
    let c: [u8; 5] = kani::any();
    let b = [0xa2u8, 3, c[0], c[1], c[2], c[3], c[4]];
    let (tail, opt) = SnmpOption::from_ber(&b).expect("well-formed wrapper");
    assert!(opt.tag == 2 && opt.value.len() == 3 && opt.value.as_ptr() as usize == b.as_ptr() as usize + 2, "option_value_is_its_content");
    assert!(tail.len() == 2 && tail.as_ptr() as usize == b.as_ptr() as usize + 5, "option_rest_is_following_octets");
    kani::cover!(true, "decoded");
}
}

std_stubs_harness! {
//@ C16 quick | v2c GetResponse frame whose PDU length is DEcreased by 2 (two octets left over inside the message after the PDU, inner lengths now overrun the PDU): rejected
fn under_length_pdu() {
    let mut b = V2C_RESP;
    b[11] -= 2;
    let r = SnmpV2cMessage::try_from(&b[..]);
    assert!(r.is_err(), "inner_elements_past_shortened_pdu_accepted");
    kani::cover!(true, "rejected");
    core::mem::forget(r);
}
}
