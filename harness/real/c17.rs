//! C17 - buffer code stays in bounds; operations that do not fit fail cleanly (Err(OutOfBuffer), nothing changed).
//! One step from an ARBITRARY reachable state (Buffer::default() + skip(n), n symbolic: reaches every position; the
//! contents are irrelevant to bounds), one operation with arbitrary arguments.  Memory safety of the `unsafe` blocks is
//! CBMC's pointer/bounds instrumentation.  Capacity is 160 in this build (hook gufo_snmp_verif): the code is
//! parametric in MAX_SIZE; the `full` profile repeats some steps at the shipped capacity 4080.
use super::spec::*;
use crate::buf::Buffer;
use crate::error::SnmpError;

pub const CAP: usize = 160;

fn any_state() -> (Buffer, usize) {
    let mut b = Buffer::default();
    let n: usize = kani::any();
    kani::assume(n <= CAP);
    b.skip(n);
    assert!(b.len() == n && b.free() == CAP - n, "skip_reaches_state");
    (b, n)
}

//@ C17 quick | push_u8 from any state: fits <=> one octet free; on success len+1 and the octet is data()[0]; on failure Err and state unchanged
#[kani::proof]
#[kani::unwind(4)]
fn step_push_u8() {
    let (mut b, n) = any_state();
    let v: u8 = kani::any();
    let r = b.push_u8(v);
    if n < CAP {
        assert!(r.is_ok() && b.len() == n + 1 && b.data()[0] == v, "push_u8_appends");
    } else {
        assert!(matches!(r, Err(SnmpError::OutOfBuffer)) && b.len() == n, "push_u8_full_buffer_clean_error");
    }
    kani::cover!(n == CAP, "full buffer");
    kani::cover!(n == CAP - 1, "last free octet");
    core::mem::forget(b);
}

//@ C17 quick | push(chunk of 0..8 symbolic octets) from any state: fits <=> len <= free; bytes are data()[..len]; failure leaves the state unchanged
#[kani::proof]
#[kani::unwind(10)]
fn step_push_chunk() {
    let (mut b, n) = any_state();
    let c: [u8; 8] = kani::any();
    let k: usize = kani::any();
    kani::assume(k <= 8);
    let r = b.push(&c[..k]);
    if k <= CAP - n {
        assert!(r.is_ok() && b.len() == n + k, "push_appends");
        let d = b.data();
        let mut i = 0;
        while i < 8 {
            if i < k {
                assert!(d[i] == c[i], "push_content");
            }
            i += 1;
        }
    } else {
        assert!(matches!(r, Err(SnmpError::OutOfBuffer)) && b.len() == n, "push_overflow_clean_error");
    }
    kani::cover!(k > 0 && k == CAP - n, "exact fit");
    kani::cover!(k == CAP - n + 1, "one octet too many");
    core::mem::forget(b);
}

//@ C17,C15 quick | push_tag_len(tag, v) for EVERY v in 0..65536 from any state: minimal definite length form (short / 81 / 82), fits <=> 2/3/4 octets free, failure leaves the state unchanged
#[kani::proof]
#[kani::unwind(4)]
fn step_push_tag_len() {
    let (mut b, n) = any_state();
    let tag: u8 = kani::any();
    let v: usize = kani::any();
    kani::assume(v < 65536);
    let need = if v < 128 { 2 } else if v < 256 { 3 } else { 4 };
    let r = b.push_tag_len(tag, v);
    if need <= CAP - n {
        assert!(r.is_ok() && b.len() == n + need, "tag_len_size");
        let d = b.data();
        assert!(d[0] == tag, "tag_octet");
        if v < 128 {
            assert!(d[1] as usize == v, "short_form");
        } else if v < 256 {
            assert!(d[1] == 0x81 && d[2] as usize == v, "long_form_81");
        } else {
            assert!(d[1] == 0x82 && ((d[2] as usize) << 8 | d[3] as usize) == v, "long_form_82");
        }
    } else {
        assert!(matches!(r, Err(SnmpError::OutOfBuffer)), "tag_len_overflow_is_error");
        assert!(b.len() == n, "tag_len_overflow_leaves_state");
    }
    kani::cover!(v >= 256 && CAP - n == 3, "82 form with three octets free");
    kani::cover!(v == 127, "largest short form");
    kani::cover!(v == 128, "smallest long form");
    core::mem::forget(b);
}

//@ C17 quick | push_tagged(tag, 0..6 symbolic octets) from any state: TLV at the front, or clean error
#[kani::proof]
#[kani::unwind(8)]
fn step_push_tagged() {
    let (mut b, n) = any_state();
    let c: [u8; 6] = kani::any();
    let k: usize = kani::any();
    kani::assume(k <= 6);
    let tag: u8 = kani::any();
    let r = b.push_tagged(tag, &c[..k]);
    if k + 2 <= CAP - n {
        assert!(r.is_ok() && b.len() == n + k + 2, "tagged_size");
        let d = b.data();
        assert!(d[0] == tag && d[1] as usize == k, "tagged_header");
        let mut i = 0;
        while i < 6 {
            if i < k {
                assert!(d[2 + i] == c[i], "tagged_content");
            }
            i += 1;
        }
    } else {
        assert!(r.is_err(), "tagged_overflow_is_error");
        assert!(b.len() <= CAP, "position_in_range");
    }
    kani::cover!(k + 2 == CAP - n, "exact fit");
    core::mem::forget(b);
}

//@ C17 quick | skip(any usize), reset, data_mut, as_slice, bookmark from any state: position stays in 0..=capacity, slices have the reported length
#[kani::proof]
#[kani::unwind(4)]
fn step_misc() {
    let (mut b, n) = any_state();
    let s: usize = kani::any();
    b.skip(s);
    let n2 = b.len();
    assert!(n2 <= CAP && ((s <= CAP - n && n2 == n + s) || (s > CAP - n && n2 == CAP)), "skip_saturates_at_capacity");
    assert!(b.data().len() == n2 && b.data_mut().len() == n2, "data_len");
    assert!(b.is_full() == (n2 == CAP) && b.is_empty() == (n2 == 0), "full_empty_flags");
    let k: usize = kani::any();
    kani::assume(k <= CAP);
    assert!(b.as_slice(k).len() == k, "as_slice_len");
    let delta: usize = kani::any();
    kani::assume(delta <= n2);
    b.set_bookmark(delta);
    assert!(b.get_bookmark() == delta, "bookmark_roundtrip");
    b.reset();
    assert!(b.is_empty() && b.free() == CAP, "reset_empties");
    kani::cover!(s > CAP, "skip beyond capacity");
    core::mem::forget(b);
}

macro_rules! get_long_oid {
    ($name:ident, $n:expr) => {
        #[kani::proof]
        #[kani::unwind(12)]
        #[kani::stub(alloc::fmt::format, stub_format)]
        fn $name() {
            use crate::ber::{BerEncoder, SnmpOid};
            use crate::snmp::get::SnmpGet;
            use crate::snmp::msg::SnmpPdu;
            // OID content of $n octets: first, middle and last symbolic, the rest zero
            let mut c = [0u8; $n];
            c[0] = kani::any();
            c[$n / 2] = kani::any();
            c[$n - 1] = kani::any();
            let pdu = SnmpPdu::GetNextRequest(SnmpGet { request_id: 0x55, vars: vec![SnmpOid(std::borrow::Cow::Borrowed(&c[..]))] });
            let mut buf = Buffer::default();
            pdu.push_ber(&mut buf).expect("fits");
            // reference
            let mut vb = W::new();
            vb.octets(0x06, &c);
            vb.bytes(&[0x05, 0]);
            let mut vbs = W::new();
            vbs.tlv(0x30, &vb);
            let mut body = W::new();
            body.int(0x55);
            body.int(0);
            body.int(0);
            body.tlv(0x30, &vbs);
            let mut want = W::new();
            want.tlv(0xa1, &body);
            let d = buf.data();
            assert!(d.len() == want.n, "pdu_length");
            // headers of every nesting level (first 24 octets) and the tail; the OID body in between is a memcpy
            let mut i = 0;
            while i < 8 {
                assert!(d[i] == want.b[i] && d[8 + i] == want.b[8 + i] && d[16 + i] == want.b[16 + i], "pdu_nested_length_headers");
                assert!(d[want.n - 1 - i] == want.b[want.n - 1 - i], "pdu_tail");
                i += 1;
            }
            kani::cover!(true, "encoded");
            core::mem::forget(buf);
            core::mem::forget(pdu);
        }
    };
}
//@ C17,C03,C15 quick | GetNext PDU with one OID of 127 content octets (largest short-form length): every nesting level's header == reference encoding
get_long_oid!(get_long_oid_127, 127);
//@ C17,C03,C15 quick | GetNext PDU with one OID of 128 content octets (first long-form length 81 80): every nesting level's header == reference encoding
get_long_oid!(get_long_oid_128, 128);
