//! C02 - response values reach the caller exactly as encoded (codec layer: value == X.690 denotation).
//! Concrete tag/length form, symbolic content, at least one symbolic trailing octet.
use super::spec::*;
use crate::ber::*;
use crate::snmp::value::SnmpValue;

macro_rules! int_value {
    ($name:ident, $l:tt) => {
        #[kani::proof]
        #[kani::unwind(12)]
        #[kani::stub(alloc::fmt::format, stub_format)]
        #[kani::stub(<f64 as core::str::FromStr>::from_str, stub_f64_from_str)]
        #[kani::stub(core::str::from_utf8, stub_from_utf8)]
        #[kani::stub(f64::powi, stub_powi)]
        fn $name() {
            let c: [u8; $l] = kani::any();
            let mut b = [0u8; $l + 3];
            b[0] = 0x02;
            b[1] = $l;
            b[2..2 + $l].copy_from_slice(&c);
            b[2 + $l] = kani::any();
            let (tail, v) = SnmpInt::from_ber(&b).expect("well-formed INTEGER accepted");
            let got: i64 = v.into();
            assert!(got == spec_int(&c), "int_value_is_twos_complement");
            assert!(tail.len() == 1, "int_tail_is_rest");
            // the same through the value dispatcher
            match SnmpValue::from_ber(&b) {
                Ok((t2, SnmpValue::Int(v2))) => {
                    let g2: i64 = v2.into();
                    assert!(g2 == got && t2.len() == 1, "value_dispatch_int_same");
                }
                _ => panic!("value_dispatch_int_variant"),
            }
            kani::cover!(got < 0, "negative");
            kani::cover!(got > 0, "positive");
        }
    };
}
//@ C02,C15,C16 quick | INTEGER content of 1 octet, all values, + 1 trailing octet: from_ber == two's complement spec
int_value!(int_value_1, 1);
//@ C02,C15,C16 quick | INTEGER content of 2 octets, all values
int_value!(int_value_2, 2);
//@ C02,C15,C16 quick | INTEGER content of 3 octets, all values
int_value!(int_value_3, 3);
//@ C02,C15,C16 quick | INTEGER content of 4 octets, all values
int_value!(int_value_4, 4);
//@ C02,C15,C16 quick | INTEGER content of 5 octets, all values
int_value!(int_value_5, 5);
//@ C02,C15,C16 quick | INTEGER content of 7 octets, all values
int_value!(int_value_7, 7);
//@ C02,C15,C16 quick | INTEGER content of 8 octets, all values (64-bit boundary)
int_value!(int_value_8, 8);

//@ C02 quick | INTEGER content of 9 or 10 octets: rejected or exactly representable, never silently truncated
#[kani::proof]
#[kani::unwind(13)]
#[kani::stub(alloc::fmt::format, stub_format)]
#[kani::stub(<f64 as core::str::FromStr>::from_str, stub_f64_from_str)]
#[kani::stub(core::str::from_utf8, stub_from_utf8)]
#[kani::stub(f64::powi, stub_powi)]
fn int_value_overlong() {
    let c: [u8; 10] = kani::any();
    let l: u8 = kani::any();
    kani::assume(l == 9 || l == 10);
    let mut b = [0u8; 12];
    b[0] = 0x02;
    b[1] = l;
    b[2..].copy_from_slice(&c);
    let r = SnmpInt::from_ber(&b[..2 + l as usize]);
    if let Ok((_, v)) = r {
        // accepted only if the value is what the content denotes (i.e. redundant sign octets only)
        let got: i64 = v.into();
        let n = l as usize;
        let low = spec_int(&c[n - 8..n]);
        let sign: u8 = if low < 0 { 0xff } else { 0 };
        let mut ok = got == low;
        let mut i = 0;
        while i < n - 8 {
            ok = ok && c[i] == sign;
            i += 1;
        }
        assert!(ok, "overlong_int_not_truncated");
    } else {
        kani::cover!(true, "rejected");
    }
}

// ------------------------------------------------------------------------------------
// unsigned application types

macro_rules! u32_value {
    ($name:ident, $t:ty, $tag:expr, $variant:ident, $l:tt) => {
        #[kani::proof]
        #[kani::unwind(12)]
        #[kani::stub(alloc::fmt::format, stub_format)]
        #[kani::stub(<f64 as core::str::FromStr>::from_str, stub_f64_from_str)]
        #[kani::stub(core::str::from_utf8, stub_from_utf8)]
        #[kani::stub(f64::powi, stub_powi)]
        fn $name() {
            let c: [u8; $l] = kani::any();
            let mut b = [0u8; $l + 3];
            b[0] = $tag;
            b[1] = $l;
            b[2..2 + $l].copy_from_slice(&c);
            b[2 + $l] = kani::any();
            // in-range values only: content longer than 4 octets must start with zero octets
            if $l > 4 {
                kani::assume(spec_uint(&c) <= u32::MAX as u64);
            }
            let (tail, v) = <$t>::from_ber(&b).expect("well-formed unsigned value accepted");
            assert!(v.0 as u64 == spec_uint(&c), "u32_value_is_big_endian");
            assert!(tail.len() == 1, "u32_tail_is_rest");
            match SnmpValue::from_ber(&b) {
                Ok((t2, SnmpValue::$variant(v2))) => assert!(v2.0 == v.0 && t2.len() == 1, "value_dispatch_u32_same"),
                _ => panic!("value_dispatch_u32_variant"),
            }
            kani::cover!(v.0 == u32::MAX, "max");
        }
    };
}
//@ C02,C16 quick | Counter32 content of 4 octets, all values: == unsigned big endian, via typed decoder and SnmpValue
u32_value!(c32_value_4, SnmpCounter32, 0x41, Counter32, 4);
//@ C02,C16 quick | Counter32 content of 5 octets with a leading zero octet (values 0..2^32-1)
u32_value!(c32_value_5, SnmpCounter32, 0x41, Counter32, 5);
//@ C02,C16 quick | Gauge32 content of 4 octets, all values
u32_value!(g32_value_4, SnmpGauge32, 0x42, Gauge32, 4);
//@ C02,C16 quick | Gauge32 content of 5 octets with a leading zero octet
u32_value!(g32_value_5, SnmpGauge32, 0x42, Gauge32, 5);
//@ C02,C16 quick | TimeTicks content of 4 octets, all values
u32_value!(tt_value_4, SnmpTimeTicks, 0x43, TimeTicks, 4);
//@ C02,C16 quick | TimeTicks content of 5 octets with a leading zero octet
u32_value!(tt_value_5, SnmpTimeTicks, 0x43, TimeTicks, 5);
//@ C02,C16 quick | UInteger32 content of 4 octets, all values
u32_value!(u32_value_4, SnmpUInteger32, 0x47, UInteger32, 4);
//@ C02,C16 quick | UInteger32 content of 5 octets with a leading zero octet
u32_value!(u32_value_5, SnmpUInteger32, 0x47, UInteger32, 5);

macro_rules! c64_value {
    ($name:ident, $l:tt) => {
        #[kani::proof]
        #[kani::unwind(12)]
        #[kani::stub(alloc::fmt::format, stub_format)]
        #[kani::stub(<f64 as core::str::FromStr>::from_str, stub_f64_from_str)]
        #[kani::stub(core::str::from_utf8, stub_from_utf8)]
        #[kani::stub(f64::powi, stub_powi)]
        fn $name() {
            let c: [u8; $l] = kani::any();
            let mut b = [0u8; $l + 3];
            b[0] = 0x46;
            b[1] = $l;
            b[2..2 + $l].copy_from_slice(&c);
            b[2 + $l] = kani::any();
            if $l > 8 {
                kani::assume(c[0] == 0); // 9 octets: leading zero octet, value in 0..2^64-1
            }
            let (tail, v) = SnmpCounter64::from_ber(&b).expect("well-formed Counter64 accepted");
            let want = if $l > 8 { spec_uint(&c[1..]) } else { spec_uint(&c) };
            assert!(v.0 == want, "c64_value_is_big_endian");
            assert!(tail.len() == 1, "c64_tail_is_rest");
            match SnmpValue::from_ber(&b) {
                Ok((t2, SnmpValue::Counter64(v2))) => assert!(v2.0 == v.0 && t2.len() == 1, "value_dispatch_c64_same"),
                _ => panic!("value_dispatch_c64_variant"),
            }
            kani::cover!(v.0 > 0x7f, "large value");
        }
    };
}
//@ C02,C16 quick | Counter64 content of 1 octet, all values
c64_value!(c64_value_1, 1);
//@ C02,C16 quick | Counter64 content of 8 octets, all values
c64_value!(c64_value_8, 8);
//@ C02,C16 quick | Counter64 content of 9 octets with a leading zero octet (values >= 2^63 included)
c64_value!(c64_value_9, 9);

// ------------------------------------------------------------------------------------
// byte-string types: the returned slice is exactly the content octets (address and length)

macro_rules! bytes_value {
    ($name:ident, $t:ident, $tag:expr, $variant:ident, $l:tt, $hdr:expr, $hl:tt) => {
        #[kani::proof]
        #[kani::unwind(6)]
        #[kani::stub(alloc::fmt::format, stub_format)]
        #[kani::stub(<f64 as core::str::FromStr>::from_str, stub_f64_from_str)]
        #[kani::stub(core::str::from_utf8, stub_from_utf8)]
        #[kani::stub(f64::powi, stub_powi)]
        fn $name() {
            // content: first, middle and last octet symbolic, the rest zero (the decoder only slices; a fully symbolic
            // 256-octet array costs CBMC minutes in kani::any() alone)
            let mut b = [0u8; $hl + $l + 1];
            if $l > 0 {
                b[$hl] = kani::any();
                b[$hl + $l / 2] = kani::any();
                b[$hl + $l - 1] = kani::any();
            }
            b[$hl + $l] = kani::any();
            let hdr: [u8; $hl] = $hdr;
            b[0] = $tag;
            let mut i = 1;
            while i < $hl {
                b[i] = hdr[i];
                i += 1;
            }
            let (tail, v) = $t::from_ber(&b).expect("well-formed byte string accepted");
            assert!(v.0.as_ptr() as usize == b.as_ptr() as usize + $hl && v.0.len() == $l, "bytes_value_is_content_slice");
            assert!(tail.as_ptr() as usize == b.as_ptr() as usize + $hl + $l && tail.len() == 1, "bytes_tail_is_rest");
            match SnmpValue::from_ber(&b) {
                Ok((t2, SnmpValue::$variant(v2))) => {
                    assert!(v2.0.as_ptr() == v.0.as_ptr() && v2.0.len() == $l && t2.len() == 1, "value_dispatch_bytes_same")
                }
                _ => panic!("value_dispatch_bytes_variant"),
            }
            kani::cover!(true, "decoded");
        }
    };
}
//@ C02,C16 quick | OCTET STRING of 0 octets (short form), trailing octet present
bytes_value!(octets_0, SnmpOctetString, 0x04, OctetString, 0, [0, 0], 2);
//@ C02,C16 quick | OCTET STRING of 5 symbolic octets (short form)
bytes_value!(octets_5, SnmpOctetString, 0x04, OctetString, 5, [0, 5], 2);
//@ C02,C16 quick | OCTET STRING of 127 symbolic octets (largest short form)
bytes_value!(octets_127, SnmpOctetString, 0x04, OctetString, 127, [0, 127], 2);
//@ C02,C16 quick | OCTET STRING of 128 symbolic octets (long form 81 80)
bytes_value!(octets_128, SnmpOctetString, 0x04, OctetString, 128, [0, 0x81, 128], 3);
//@ C02,C16 quick | OCTET STRING of 255 symbolic octets (long form 81 ff)
bytes_value!(octets_255, SnmpOctetString, 0x04, OctetString, 255, [0, 0x81, 255], 3);
//@ C02,C16 quick | OCTET STRING of 256 symbolic octets (long form 82 01 00)
bytes_value!(octets_256, SnmpOctetString, 0x04, OctetString, 256, [0, 0x82, 1, 0], 4);
//@ C02,C16 quick | Opaque of 5 symbolic octets
bytes_value!(opaque_5, SnmpOpaque, 0x44, Opaque, 5, [0, 5], 2);
//@ C02,C16 quick | Opaque of 130 symbolic octets (long form)
bytes_value!(opaque_130, SnmpOpaque, 0x44, Opaque, 130, [0, 0x81, 130], 3);
//@ C02,C16 quick | ObjectDescriptor of 5 symbolic octets
bytes_value!(objdesc_5, SnmpObjectDescriptor, 0x07, ObjectDescriptor, 5, [0, 5], 2);

//@ C02,C16 quick | OBJECT IDENTIFIER value of 6 symbolic content octets: content slice identity, through typed decoder and SnmpValue
#[kani::proof]
#[kani::unwind(8)]
#[kani::stub(alloc::fmt::format, stub_format)]
#[kani::stub(<f64 as core::str::FromStr>::from_str, stub_f64_from_str)]
#[kani::stub(core::str::from_utf8, stub_from_utf8)]
#[kani::stub(f64::powi, stub_powi)]
fn oid_value_6() {
    let mut b: [u8; 9] = kani::any();
    b[0] = 0x06;
    b[1] = 6;
    let (tail, v) = SnmpOid::from_ber(&b).expect("well-formed OID accepted");
    assert!(v.0.as_ptr() as usize == b.as_ptr() as usize + 2 && v.0.len() == 6, "oid_value_is_content_slice");
    assert!(tail.len() == 1, "oid_tail_is_rest");
    match SnmpValue::from_ber(&b) {
        Ok((t2, SnmpValue::Oid(v2))) => assert!(v2.0.as_ptr() == v.0.as_ptr() && v2.0.len() == 6 && t2.len() == 1, "value_dispatch_oid_same"),
        _ => panic!("value_dispatch_oid_variant"),
    }
    kani::cover!(true, "decoded");
    core::mem::forget(v);
}

//@ C02,C16 quick | BOOLEAN, NULL, IpAddress, and the three exception values through SnmpValue::from_ber with a trailing octet
#[kani::proof]
#[kani::unwind(8)]
#[kani::stub(alloc::fmt::format, stub_format)]
#[kani::stub(<f64 as core::str::FromStr>::from_str, stub_f64_from_str)]
#[kani::stub(core::str::from_utf8, stub_from_utf8)]
#[kani::stub(f64::powi, stub_powi)]
fn small_values() {
    let x: u8 = kani::any();
    let t: u8 = kani::any();
    let b = [0x01u8, 1, x, t];
    match SnmpValue::from_ber(&b) {
        Ok((tail, SnmpValue::Bool(v))) => {
            let bv: bool = v.into();
            assert!(bv == (x != 0) && tail.len() == 1, "bool_value");
        }
        _ => panic!("bool_variant"),
    }
    let n = [0x05u8, 0, t];
    assert!(matches!(SnmpValue::from_ber(&n), Ok((tail, SnmpValue::Null)) if tail.len() == 1), "null_value");
    let ip: [u8; 4] = kani::any();
    let ib = [0x40u8, 4, ip[0], ip[1], ip[2], ip[3], t];
    match SnmpValue::from_ber(&ib) {
        Ok((tail, SnmpValue::IpAddress(_))) => assert!(tail.len() == 1, "ip_tail"),
        _ => panic!("ip_variant"),
    }
    assert!(matches!(SnmpValue::from_ber(&[0x80u8, 0, t]), Ok((tail, SnmpValue::NoSuchObject)) if tail.len() == 1), "nosuchobject_value");
    assert!(matches!(SnmpValue::from_ber(&[0x81u8, 0, t]), Ok((tail, SnmpValue::NoSuchInstance)) if tail.len() == 1), "nosuchinstance_value");
    assert!(matches!(SnmpValue::from_ber(&[0x82u8, 0, t]), Ok((tail, SnmpValue::EndOfMibView)) if tail.len() == 1), "endofmibview_value");
    kani::cover!(x != 0, "true");
}

// ------------------------------------------------------------------------------------
// REAL

//@ C02 quick | REAL special values 40/41/42/43 and the empty encoding through SnmpValue::from_ber: +inf, -inf, NaN, -0, +0
#[kani::proof]
#[kani::unwind(8)]
#[kani::stub(alloc::fmt::format, stub_format)]
#[kani::stub(<f64 as core::str::FromStr>::from_str, stub_f64_from_str)]
#[kani::stub(core::str::from_utf8, stub_from_utf8)]
#[kani::stub(f64::powi, stub_powi)]
fn real_special() {
    let t: u8 = kani::any();
    let k: u8 = kani::any();
    kani::assume(k < 4);
    let b = [0x09u8, 1, 0x40 | k, t];
    match SnmpValue::from_ber(&b) {
        Ok((tail, SnmpValue::Real(r))) => {
            let f: f64 = r.into();
            assert!(tail.len() == 1, "real_tail");
            match k {
                0 => assert!(f == f64::INFINITY, "real_plus_inf"),
                1 => assert!(f == f64::NEG_INFINITY, "real_minus_inf"),
                2 => assert!(f.is_nan(), "real_nan"),
                _ => assert!(f == 0.0 && f.is_sign_negative(), "real_minus_zero"),
            }
        }
        _ => panic!("real_special_rejected"),
    }
    let z = [0x09u8, 0, t];
    match SnmpValue::from_ber(&z) {
        Ok((tail, SnmpValue::Real(r))) => {
            let f: f64 = r.into();
            assert!(f == 0.0 && f.is_sign_positive() && tail.len() == 1, "real_plus_zero");
        }
        _ => panic!("real_empty_rejected"),
    }
    kani::cover!(k == 3, "minus zero");
}

pub static mut REAL_STR_PTR: usize = 0;
pub static mut REAL_STR_LEN: usize = 0;
/// records which text reaches the float parser
pub fn stub_f64_from_str_record(s: &str) -> Result<f64, core::num::ParseFloatError> {
    unsafe {
        REAL_STR_PTR = s.as_ptr() as usize;
        REAL_STR_LEN = s.len();
    }
    Ok(kani::any())
}

//@ C02,C16 quick | REAL decimal NR2/NR3 of 4 content octets + 2 trailing octets: the text handed to the float parser is exactly content[1..] (f64 parser and from_utf8 stubbed)
#[kani::proof]
#[kani::unwind(8)]
#[kani::stub(alloc::fmt::format, stub_format)]
#[kani::stub(f64::powi, stub_powi)]
#[kani::stub(<f64 as core::str::FromStr>::from_str, stub_f64_from_str_record)]
#[kani::stub(core::str::from_utf8, stub_from_utf8)]
fn real_decimal_extent() {
    let mut b: [u8; 8] = kani::any();
    b[0] = 0x09;
    b[1] = 4;
    let form: u8 = kani::any();
    kani::assume(form == 2 || form == 3);
    b[2] = form;
    let r = SnmpValue::from_ber(&b);
    if let Ok((tail, SnmpValue::Real(_))) = &r {
        assert!(tail.len() == 2, "real_decimal_tail");
        unsafe {
            assert!(REAL_STR_PTR == b.as_ptr() as usize + 3 && REAL_STR_LEN == 3, "real_decimal_text_is_content");
        }
        kani::cover!(true, "accepted");
    }
    core::mem::forget(r);
}

//@ C02 quick | REAL binary encoding, base 2, scale factor F=0, 1-octet exponent, 1-octet mantissa (the commonest form) must be accepted
#[kani::proof]
#[kani::unwind(8)]
#[kani::stub(alloc::fmt::format, stub_format)]
#[kani::stub(<f64 as core::str::FromStr>::from_str, stub_f64_from_str)]
#[kani::stub(core::str::from_utf8, stub_from_utf8)]
#[kani::stub(f64::powi, stub_powi)]
fn real_binary_f0_accepted() {
    // exponent and mantissa concrete (floating-point multiplication on symbolic operands is out of CBMC's reach
    // within the budget; acceptance does not depend on them), sign symbolic
    let e: u8 = 1;
    let m: u8 = 3;
    let s: bool = kani::any();
    let b = [0x09u8, 3, 0x80 | if s { 0x40 } else { 0 }, e, m, 0];
    let r = SnmpValue::from_ber(&b);
    assert!(matches!(&r, Ok((tail, SnmpValue::Real(_))) if tail.len() == 1), "real_binary_f0_rejected");
    kani::cover!(true, "accepted");
    core::mem::forget(r);
}

pub static mut POWI_N: i32 = 0;
pub static mut POWI_X: f64 = 0.0;
pub fn stub_powi_record(x: f64, n: i32) -> f64 {
    unsafe {
        POWI_N = n;
        POWI_X = x;
    }
    2.0
}

//@ C02 quick | REAL binary encoding: base 2/8/16 selected by bits 6-5, exponent of 1 or 2 octets read as TWO'S COMPLEMENT (checked on the operands handed to powi; mantissa concrete)
#[kani::proof]
#[kani::unwind(8)]
#[kani::stub(alloc::fmt::format, stub_format)]
#[kani::stub(<f64 as core::str::FromStr>::from_str, stub_f64_from_str)]
#[kani::stub(core::str::from_utf8, stub_from_utf8)]
#[kani::stub(f64::powi, stub_powi_record)]
fn real_binary_exponent_base() {
    let e: [u8; 2] = kani::any();
    let two: bool = kani::any();
    let base_bits: u8 = kani::any();
    kani::assume(base_bits < 3);
    let first = 0x80 | (base_bits << 4) | (two as u8);
    let b1 = [0x09u8, 3, first, e[0], 1, 0, 0];
    let b2 = [0x09u8, 4, first, e[0], e[1], 1, 0];
    let r = if two { SnmpValue::from_ber(&b2[..]) } else { SnmpValue::from_ber(&b1[..6]) };
    assert!(matches!(&r, Ok((_, SnmpValue::Real(_)))), "real_binary_rejected");
    let want_e: i32 = if two { i16::from_be_bytes(e) as i32 } else { e[0] as i8 as i32 };
    let want_base: f64 = match base_bits {
        0 => 2.0,
        1 => 8.0,
        _ => 16.0,
    };
    unsafe {
        assert!(POWI_N == want_e, "real_binary_exponent_is_twos_complement");
        assert!(POWI_X == want_base, "real_binary_base");
    }
    kani::cover!(want_e < 0, "negative exponent");
    kani::cover!(two && want_e > 255, "two octet exponent");
    core::mem::forget(r);
}

// ------------------------------------------------------------------------------------
// OID -> dotted text (the dict keys and OID values handed to Python), real core::fmt

/// reference decimal rendering of v into out starting at pos; returns new pos
fn put_dec(out: &mut [u8; 40], mut pos: usize, v: u32) -> usize {
    let mut digits = [0u8; 10];
    let mut n = 0;
    let mut x = v;
    loop {
        digits[n] = b'0' + (x % 10) as u8;
        n += 1;
        x /= 10;
        if x == 0 {
            break;
        }
    }
    while n > 0 {
        n -= 1;
        out[pos] = digits[n];
        pos += 1;
    }
    pos
}

macro_rules! oid_to_text {
    ($name:ident, $n:tt) => {
        #[kani::proof]
        #[kani::unwind(12)]
        fn $name() {
            let c: [u8; $n] = kani::any();
            kani::assume(c[0] < 120);
            kani::assume(c[$n - 1] & 0x80 == 0); // the last sub-identifier is complete
            let o = SnmpOid::from(c.to_vec());
            let s = String::try_from(&o).expect("non-empty OID renders");
            // reference: first octet -> X.Y, then base-128 sub-identifiers
            let mut want = [0u8; 40];
            let mut p = put_dec(&mut want, 0, (c[0] / 40) as u32);
            want[p] = b'.';
            p = put_dec(&mut want, p + 1, (c[0] % 40) as u32);
            let mut acc: u32 = 0;
            let mut i = 1;
            while i < $n {
                acc = (acc << 7) | (c[i] & 0x7f) as u32;
                if c[i] & 0x80 == 0 {
                    want[p] = b'.';
                    p = put_dec(&mut want, p + 1, acc);
                    acc = 0;
                }
                i += 1;
            }
            let got = s.as_bytes();
            assert!(got.len() == p, "oid_text_length");
            let mut i = 0;
            while i < 11 {
                if i < p {
                    assert!(got[i] == want[i], "oid_text_is_dotted_decimal_of_the_arcs");
                }
                i += 1;
            }
            kani::cover!(c[0] == 40, "first octet 40 -> 1.0");
            kani::cover!(c[0] == 80, "first octet 80 -> 2.0");
            core::mem::forget(s);
            core::mem::forget(o);
        }
    };
}
//@ C02,C08 quick timeout=900 | String::try_from(&SnmpOid) (real core::fmt) for EVERY OID of 2 content octets with first octet < 120: == "X.Y.arc" reference rendering (first-arc split at 40/80 included)
oid_to_text!(oid_to_text_2, 2);
//@ C02,C08 thorough timeout=3000 optional | String::try_from(&SnmpOid) for every OID of 3 content octets (one two-octet arc or two one-octet arcs)
oid_to_text!(oid_to_text_3, 3);
