//! C02 - response values reach the caller exactly as encoded (codec layer: value == X.690 denotation).
//! Concrete tag/length form, symbolic content, at least one symbolic trailing octet.
use super::spec::*;
use crate::ber::*;
use crate::snmp::value::SnmpValue;

macro_rules! int_value {
    ($name:ident, $l:tt) => {
        #[kani::proof]
        #[kani::unwind(12)]
        #[kani::stub(alloc::fmt::format, stub_format)]
        fn $name() {
            let c: [u8; $l] = kani::any();
            let mut b = [0u8; $l + 3];
            b[0] = 0x02;
            b[1] = $l;
            b[2..2 + $l].copy_from_slice(&c);
            b[2 + $l] = kani::any();
            let (tail, v) = SnmpInt::from_ber(&b).expect("well-formed INTEGER accepted");
            let got: i64 = v.into();
            assert!(got == spec_int(&c), "int_value_is_twos_complement");
            assert!(tail.len() == 1, "int_tail_is_rest");
            // the same through the value dispatcher
            match SnmpValue::from_ber(&b) {
                Ok((t2, SnmpValue::Int(v2))) => {
                    let g2: i64 = v2.into();
                    assert!(g2 == got && t2.len() == 1, "value_dispatch_int_same");
                }
                _ => panic!("value_dispatch_int_variant"),
            }
            kani::cover!(got < 0, "negative");
            kani::cover!(got > 0, "positive");
        }
    };
}
//@ C02,C15,C16 quick | INTEGER content of 1 octet, all values, + 1 trailing octet: from_ber == two's complement spec
int_value!(int_value_1, 1);
//@ C02,C15,C16 quick | INTEGER content of 2 octets, all values
int_value!(int_value_2, 2);
//@ C02,C15,C16 quick | INTEGER content of 3 octets, all values
int_value!(int_value_3, 3);
//@ C02,C15,C16 quick | INTEGER content of 4 octets, all values
int_value!(int_value_4, 4);
//@ C02,C15,C16 quick | INTEGER content of 5 octets, all values
int_value!(int_value_5, 5);
//@ C02,C15,C16 quick | INTEGER content of 7 octets, all values
int_value!(int_value_7, 7);
//@ C02,C15,C16 quick | INTEGER content of 8 octets, all values (64-bit boundary)
int_value!(int_value_8, 8);

//@ C02 quick | INTEGER content of 9 or 10 octets: rejected or exactly representable, never silently truncated
#[kani::proof]
#[kani::unwind(13)]
#[kani::stub(alloc::fmt::format, stub_format)]
fn int_value_overlong() {
    let c: [u8; 10] = kani::any();
    let l: u8 = kani::any();
    kani::assume(l == 9 || l == 10);
    let mut b = [0u8; 12];
    b[0] = 0x02;
    b[1] = l;
    b[2..].copy_from_slice(&c);
    let r = SnmpInt::from_ber(&b[..2 + l as usize]);
    if let Ok((_, v)) = r {
        // accepted only if the value is what the content denotes (i.e. redundant sign octets only)
        let got: i64 = v.into();
        let n = l as usize;
        let low = spec_int(&c[n - 8..n]);
        let sign: u8 = if low < 0 { 0xff } else { 0 };
        let mut ok = got == low;
        let mut i = 0;
        while i < n - 8 {
            ok = ok && c[i] == sign;
            i += 1;
        }
        assert!(ok, "overlong_int_not_truncated");
    } else {
        kani::cover!(true, "rejected");
    }
}
