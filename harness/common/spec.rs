//! Harness-side reference definitions (oracles), written independently of /repo/src.
#![allow(dead_code)]

/// Stub for `alloc::fmt::format`: error-message text is not the subject of any property.
pub fn stub_format(_args: core::fmt::Arguments<'_>) -> String {
    String::new()
}

/// X.690 8.3.2: two's complement, big endian, `content` 1..=8 octets.
pub fn spec_int(content: &[u8]) -> i64 {
    let mut v: i64 = if content[0] & 0x80 != 0 { -1 } else { 0 };
    let mut i = 0;
    while i < content.len() {
        v = (v << 8) | (content[i] as i64);
        i += 1;
    }
    v
}

/// Unsigned big endian, `content` 0..=8 octets (leading zero octets allowed).
pub fn spec_uint(content: &[u8]) -> u64 {
    let mut v: u64 = 0;
    let mut i = 0;
    while i < content.len() {
        v = (v << 8) | (content[i] as u64);
        i += 1;
    }
    v
}

/// Stub for `<f64 as FromStr>::from_str` (S2): Rust's dec2flt is out of CBMC's reach; the numeric value of a
/// decimal REAL is outside every claim.  Returns an arbitrary float or an error.
pub fn stub_f64_from_str(_s: &str) -> Result<f64, core::num::ParseFloatError> {
    if kani::any() {
        Ok(kani::any())
    } else {
        // a ParseFloatError can only be obtained from a real parser; f32's is not stubbed and rejects "" in O(1)
        Err("".parse::<f32>().unwrap_err())
    }
}

/// Stub for `core::str::from_utf8` (S3b): accept or reject arbitrarily (over-approximates validation).
pub fn stub_from_utf8(b: &[u8]) -> Result<&str, core::str::Utf8Error> {
    if kani::any() {
        Ok(unsafe { core::str::from_utf8_unchecked(b) })
    } else {
        let mut bad = [0xffu8];
        Err(core::str::from_utf8_mut(&mut bad).map(|_| ()).unwrap_err())
    }
}

/// Minimal two's complement content octets of `v` (X.690 8.3.2), big endian, returned right-aligned in 8 octets.
pub fn spec_int_content(v: i64) -> ([u8; 8], usize) {
    let be = v.to_be_bytes();
    let mut skip = 0;
    while skip < 7 {
        let b = be[skip];
        let next_hi = be[skip + 1] & 0x80;
        if (b == 0x00 && next_hi == 0) || (b == 0xff && next_hi != 0) {
            skip += 1;
        } else {
            break;
        }
    }
    (be, 8 - skip)
}

// ------------------------------------------------------------------------------------
// OID text reference (C08)

pub const MAX_ARCS: usize = 6;

/// Reference tokenizer for dotted-decimal OID text.
/// Returns (arcs, n_arcs, strict) or None if the text denotes no OID.
/// `strict` is false when an arc carries a '+' sign or redundant leading zeros: such text still denotes a
/// unique OID, and a lenient parser may accept it (but only as THAT OID).
pub fn spec_parse_oid(s: &[u8]) -> Option<([u32; MAX_ARCS], usize, bool)> {
    let mut arcs = [0u32; MAX_ARCS];
    let mut n = 0usize;
    let mut strict = true;
    let mut i = 0usize;
    loop {
        // one arc
        if n >= MAX_ARCS {
            return None; // outside the reference's capacity: callers keep templates within MAX_ARCS
        }
        if i < s.len() && s[i] == b'+' {
            strict = false;
            i += 1;
        }
        let start = i;
        let mut v: u64 = 0;
        while i < s.len() && s[i] != b'.' {
            let c = s[i];
            if c < b'0' || c > b'9' {
                return None;
            }
            v = v * 10 + (c - b'0') as u64;
            if v > u32::MAX as u64 {
                return None;
            }
            i += 1;
        }
        if i == start {
            return None; // empty arc
        }
        if i - start > 1 && s[start] == b'0' {
            strict = false;
        }
        arcs[n] = v as u32;
        n += 1;
        if i == s.len() {
            break;
        }
        i += 1; // skip '.'
        if i == s.len() {
            return None; // trailing dot: empty last arc
        }
    }
    if n < 2 || arcs[0] > 2 || arcs[1] > 39 {
        return None;
    }
    Some((arcs, n, strict))
}

/// Canonical X.690 8.19 content octets of the arcs; returns (buffer, length). Capacity 1 + 5*(MAX_ARCS-2).
pub fn spec_encode_arcs(arcs: &[u32; MAX_ARCS], n: usize) -> ([u8; 24], usize) {
    let mut out = [0u8; 24];
    out[0] = (arcs[0] * 40 + arcs[1]) as u8;
    let mut k = 1usize;
    let mut a = 2usize;
    while a < n {
        let v = arcs[a];
        let mut groups = 1usize;
        let mut t = v >> 7;
        while t > 0 {
            groups += 1;
            t >>= 7;
        }
        let mut g = groups;
        while g > 0 {
            g -= 1;
            let mut b = ((v >> (7 * g)) & 0x7f) as u8;
            if g > 0 {
                b |= 0x80;
            }
            out[k] = b;
            k += 1;
        }
        a += 1;
    }
    (out, k)
}

/// Stub for f64::powi (S2): the numeric value of a binary REAL is outside every claim.  A CONCRETE result is
/// returned on purpose: an arbitrary float would make the following multiplication a symbolic floating-point
/// product, which CBMC cannot bit-blast within the budget (measured: out of memory).
pub fn stub_powi(_x: f64, _n: i32) -> f64 {
    2.0
}

/// Stub for `core::fmt::write` (S3) in op/socket harnesses: text of error messages (`e.to_string()`) is not the
/// subject of any property there; unstubbed, String growth inside the formatter dominates symbolic execution.
pub fn stub_fmt_write(_output: &mut dyn core::fmt::Write, _args: core::fmt::Arguments<'_>) -> core::fmt::Result {
    Ok(())
}

/// Stub for `<std::io::Error as Display>::fmt` (S3b): io::Error is a bit-packed pointer; unstubbed, CBMC explores the
/// OS-error branch (strerror, lossy UTF-8 conversion, String growth) on every `e.to_string()`.
pub fn stub_ioerr_fmt(_e: &std::io::Error, _f: &mut core::fmt::Formatter<'_>) -> core::fmt::Result {
    Ok(())
}


/// Reference reading of a BER identifier + definite length (X.690 8.1.2, 8.1.3): returns (header octets, declared
/// length) or None when the header itself is truncated or has more than 16 length octets.
pub fn spec_header(b: &[u8]) -> Option<(usize, u128)> {
    if b.len() < 2 {
        return None;
    }
    let mut i = 1;
    if b[0] & 0x1f == 0x1f {
        loop {
            if i >= b.len() {
                return None;
            }
            let c = b[i];
            i += 1;
            if c & 0x80 == 0 {
                break;
            }
        }
    }
    if i >= b.len() {
        return None;
    }
    let l = b[i];
    i += 1;
    if l & 0x80 == 0 {
        return Some((i, l as u128));
    }
    let k = (l & 0x7f) as usize;
    if k > 16 || i + k > b.len() {
        return None;
    }
    let mut v: u128 = 0;
    let mut j = 0;
    while j < k {
        v = (v << 8) | b[i + j] as u128;
        j += 1;
    }
    Some((i + k, v))
}

// ------------------------------------------------------------------------------------
// Reference (independent) BER writer, front to back, fixed capacity.  Used to build expected datagrams.
#[derive(Clone, Copy)]
pub struct W {
    pub b: [u8; 160],
    pub n: usize,
}

impl W {
    pub const fn new() -> W {
        W { b: [0; 160], n: 0 }
    }
    pub fn byte(&mut self, v: u8) {
        self.b[self.n] = v;
        self.n += 1;
    }
    // no loops (memcpy of a length that is concrete in every harness): keeps harness unwind bounds small
    pub fn bytes(&mut self, s: &[u8]) {
        self.b[self.n..self.n + s.len()].copy_from_slice(s);
        self.n += s.len();
    }
    pub fn append(&mut self, w: &W) {
        self.b[self.n..self.n + w.n].copy_from_slice(&w.b[..w.n]);
        self.n += w.n;
    }
    /// definite length, minimal form
    pub fn header(&mut self, tag: u8, len: usize) {
        self.byte(tag);
        if len < 128 {
            self.byte(len as u8);
        } else if len < 256 {
            self.byte(0x81);
            self.byte(len as u8);
        } else {
            self.byte(0x82);
            self.byte((len >> 8) as u8);
            self.byte(len as u8);
        }
    }
    pub fn tlv(&mut self, tag: u8, content: &W) {
        self.header(tag, content.n);
        self.append(content);
    }
    pub fn octets(&mut self, tag: u8, s: &[u8]) {
        self.header(tag, s.len());
        self.bytes(s);
    }
    pub fn int(&mut self, v: i64) {
        let (be, n) = spec_int_content(v);
        self.header(0x02, n);
        let mut i = 0;
        while i < n {
            self.byte(be[8 - n + i]);
            i += 1;
        }
    }
}
