//! Harness-side reference definitions (oracles), written independently of /repo/src.
#![allow(dead_code)]

/// Stub for `alloc::fmt::format`: error-message text is not the subject of any property.
pub fn stub_format(_args: core::fmt::Arguments<'_>) -> String {
    String::new()
}

/// X.690 8.3.2: two's complement, big endian, `content` 1..=8 octets.
pub fn spec_int(content: &[u8]) -> i64 {
    let mut v: i64 = if content[0] & 0x80 != 0 { -1 } else { 0 };
    let mut i = 0;
    while i < content.len() {
        v = (v << 8) | (content[i] as i64);
        i += 1;
    }
    v
}

/// Unsigned big endian, `content` 0..=8 octets (leading zero octets allowed).
pub fn spec_uint(content: &[u8]) -> u64 {
    let mut v: u64 = 0;
    let mut i = 0;
    while i < content.len() {
        v = (v << 8) | (content[i] as u64);
        i += 1;
    }
    v
}

/// Stub for `<f64 as FromStr>::from_str` (S2): Rust's dec2flt is out of CBMC's reach; the numeric value of a
/// decimal REAL is outside every claim.  Returns an arbitrary float or an error.
pub fn stub_f64_from_str(_s: &str) -> Result<f64, core::num::ParseFloatError> {
    if kani::any() {
        Ok(kani::any())
    } else {
        // a ParseFloatError can only be obtained from a real parser; f32's is not stubbed and rejects "" in O(1)
        Err("".parse::<f32>().unwrap_err())
    }
}

/// Stub for `core::str::from_utf8` (S3b): accept or reject arbitrarily (over-approximates validation).
pub fn stub_from_utf8(b: &[u8]) -> Result<&str, core::str::Utf8Error> {
    if kani::any() {
        Ok(unsafe { core::str::from_utf8_unchecked(b) })
    } else {
        let mut bad = [0xffu8];
        Err(core::str::from_utf8_mut(&mut bad).map(|_| ()).unwrap_err())
    }
}

/// Minimal two's complement content octets of `v` (X.690 8.3.2), big endian, returned right-aligned in 8 octets.
pub fn spec_int_content(v: i64) -> ([u8; 8], usize) {
    let be = v.to_be_bytes();
    let mut skip = 0;
    while skip < 7 {
        let b = be[skip];
        let next_hi = be[skip + 1] & 0x80;
        if (b == 0x00 && next_hi == 0) || (b == 0xff && next_hi != 0) {
            skip += 1;
        } else {
            break;
        }
    }
    (be, 8 - skip)
}
