//! Harness-side reference definitions (oracles), written independently of /repo/src.
#![allow(dead_code)]

/// Stub for `alloc::fmt::format`: error-message text is not the subject of any property.
pub fn stub_format(_args: core::fmt::Arguments<'_>) -> String {
    String::new()
}

/// X.690 8.3.2: two's complement, big endian, `content` 1..=8 octets.
pub fn spec_int(content: &[u8]) -> i64 {
    let mut v: i64 = if content[0] & 0x80 != 0 { -1 } else { 0 };
    let mut i = 0;
    while i < content.len() {
        v = (v << 8) | (content[i] as i64);
        i += 1;
    }
    v
}

/// Unsigned big endian, `content` 0..=8 octets (leading zero octets allowed).
pub fn spec_uint(content: &[u8]) -> u64 {
    let mut v: u64 = 0;
    let mut i = 0;
    while i < content.len() {
        v = (v << 8) | (content[i] as u64);
        i += 1;
    }
    v
}
