//! Model of pyo3's attribute macros (M2): pass the item through, strip pyo3's inner helper
//! attributes (`#[new]`, `#[pyo3(..)]`, `#[staticmethod]`, ...) and make methods/functions `pub`,
//! because under pyo3 they *are* the public (Python-visible) API.  No dependencies.
extern crate proc_macro;
use proc_macro::{Delimiter, Group, Ident, Span, TokenStream, TokenTree};

fn is_helper_attr(g: &Group) -> bool {
    if g.delimiter() != Delimiter::Bracket {
        return false;
    }
    match g.stream().into_iter().next() {
        Some(TokenTree::Ident(i)) => {
            let s = i.to_string();
            matches!(s.as_str(), "new" | "pyo3" | "staticmethod" | "classmethod" | "getter" | "setter" | "args")
        }
        _ => false,
    }
}

/// Strip helper attributes at this nesting level; add `pub` before `fn` where missing when `publish`.
fn rewrite(ts: TokenStream, publish: bool) -> TokenStream {
    let toks: Vec<TokenTree> = ts.into_iter().collect();
    let mut out: Vec<TokenTree> = Vec::new();
    let mut i = 0;
    while i < toks.len() {
        // `#` `[helper ...]`
        if let TokenTree::Punct(p) = &toks[i] {
            if p.as_char() == '#' && i + 1 < toks.len() {
                if let TokenTree::Group(g) = &toks[i + 1] {
                    if is_helper_attr(g) {
                        i += 2;
                        continue;
                    }
                }
            }
        }
        if publish {
            if let TokenTree::Ident(id) = &toks[i] {
                if id.to_string() == "fn" {
                    // look back: is there already a `pub` (possibly `pub(crate)`)?
                    let mut has_pub = false;
                    let mut k = out.len();
                    while k > 0 {
                        k -= 1;
                        match &out[k] {
                            TokenTree::Ident(p) => {
                                let s = p.to_string();
                                if s == "pub" {
                                    has_pub = true;
                                    break;
                                }
                                if s == "async" || s == "unsafe" || s == "const" || s == "extern" {
                                    continue;
                                }
                                break;
                            }
                            TokenTree::Group(g) if g.delimiter() == Delimiter::Parenthesis => continue,
                            TokenTree::Literal(_) => continue,
                            _ => break,
                        }
                    }
                    if !has_pub {
                        out.push(TokenTree::Ident(Ident::new("pub", Span::call_site())));
                    }
                }
            }
        }
        out.push(toks[i].clone());
        i += 1;
    }
    out.into_iter().collect()
}

#[proc_macro_attribute]
pub fn pyclass(_attr: TokenStream, item: TokenStream) -> TokenStream {
    rewrite(item, false)
}

#[proc_macro_attribute]
pub fn pymethods(_attr: TokenStream, item: TokenStream) -> TokenStream {
    // item is `impl X { ... }`: rewrite inside the brace group
    let mut out: Vec<TokenTree> = Vec::new();
    for t in item {
        match t {
            TokenTree::Group(g) if g.delimiter() == Delimiter::Brace => {
                let mut ng = Group::new(Delimiter::Brace, rewrite(g.stream(), true));
                ng.set_span(g.span());
                out.push(TokenTree::Group(ng));
            }
            other => out.push(other),
        }
    }
    out.into_iter().collect()
}

#[proc_macro_attribute]
pub fn pyfunction(_attr: TokenStream, item: TokenStream) -> TokenStream {
    rewrite(item, true)
}

#[proc_macro_attribute]
pub fn pymodule(_attr: TokenStream, item: TokenStream) -> TokenStream {
    rewrite(item, false)
}
