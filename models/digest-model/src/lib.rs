//! Transcript digest (M6): records WHAT is hashed, returns a harness-chosen output per context.
//!
//! Every `new()` takes the next context slot.  `update()` appends a chunk record (address, length) and,
//! while `COPY_BYTES` is on, the bytes themselves (up to LOG_CAP).  `finalize()` returns the first N octets
//! of `OUT[slot]`, which the harness fills with symbolic values beforehand.  HMAC / key-localisation
//! correctness is then "the right bytes are hashed in the right order and the right output bytes are used".
use digest::{FixedOutput, HashMarker, Output, OutputSizeUser, Update};
use std::marker::PhantomData;

pub const CTX_N: usize = 6;
pub const LOG_CAP: usize = 256;
pub const CHUNK_N: usize = 72;

#[derive(Clone, Copy)]
pub struct Ctx {
    pub len: usize,
    pub total: usize,
    pub data: [u8; LOG_CAP],
    pub n_chunks: usize,
    pub chunk_ptr: [usize; CHUNK_N],
    pub chunk_len: [usize; CHUNK_N],
    pub finalized: bool,
}

const EMPTY: Ctx = Ctx { len: 0, total: 0, data: [0; LOG_CAP], n_chunks: 0, chunk_ptr: [0; CHUNK_N], chunk_len: [0; CHUNK_N], finalized: false };

pub static mut CTXS: [Ctx; CTX_N] = [EMPTY; CTX_N];
pub static mut NEXT: usize = 0;
pub static mut OUT: [[u8; 20]; CTX_N] = [[0; 20]; CTX_N];
pub static mut COPY_BYTES: bool = true;
pub static mut OVERFLOW: bool = false;

pub struct Transcript<N> {
    pub slot: usize,
    _p: PhantomData<N>,
}

impl<N> Default for Transcript<N> {
    fn default() -> Self {
        unsafe {
            let slot = NEXT;
            NEXT += 1;
            if slot >= CTX_N {
                OVERFLOW = true;
            }
            Transcript { slot, _p: PhantomData }
        }
    }
}

impl<N> HashMarker for Transcript<N> {}

impl<N> Update for Transcript<N> {
    fn update(&mut self, data: &[u8]) {
        unsafe {
            if self.slot >= CTX_N {
                return;
            }
            let c = &mut CTXS[self.slot];
            if c.n_chunks < CHUNK_N {
                c.chunk_ptr[c.n_chunks] = data.as_ptr() as usize;
                c.chunk_len[c.n_chunks] = data.len();
                c.n_chunks += 1;
            } else {
                OVERFLOW = true;
            }
            c.total += data.len();
            if COPY_BYTES {
                if c.len + data.len() <= LOG_CAP {
                    c.data[c.len..c.len + data.len()].copy_from_slice(data);
                    c.len += data.len();
                } else {
                    OVERFLOW = true;
                }
            }
        }
    }
}

impl<N: digest::generic_array::ArrayLength<u8> + 'static> OutputSizeUser for Transcript<N> {
    type OutputSize = N;
}

impl<N: digest::generic_array::ArrayLength<u8> + 'static> FixedOutput for Transcript<N> {
    fn finalize_into(self, out: &mut Output<Self>) {
        unsafe {
            if self.slot >= CTX_N {
                return;
            }
            CTXS[self.slot].finalized = true;
            let n = out.len();
            out.copy_from_slice(&OUT[self.slot][..n]);
        }
    }
}
