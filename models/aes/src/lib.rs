//! Model of aes::Aes128 (M5): a toy bijective, key-dependent 128-bit block map standing in for AES-128.
//!   E_k(x) = rotl8(x ^ k) ^ rotl1(k)        D_k(y) = rotr8(y ^ rotl1(k)) ^ k
use cipher::{consts::U16, BlockCipher, Key, KeyInit, KeySizeUser};

#[derive(Clone)]
pub struct Aes128 {
    pub k: u128,
}

pub fn toy_enc(k: u128, x: u128) -> u128 {
    (x ^ k).rotate_left(8) ^ k.rotate_left(1)
}
pub fn toy_dec(k: u128, y: u128) -> u128 {
    (y ^ k.rotate_left(1)).rotate_right(8) ^ k
}

impl BlockCipher for Aes128 {}
impl KeySizeUser for Aes128 {
    type KeySize = U16;
}
impl KeyInit for Aes128 {
    fn new(key: &Key<Self>) -> Self {
        Aes128 { k: u128::from_be_bytes(key.clone().into()) }
    }
}

cipher::impl_simple_block_encdec!(
    Aes128, U16, cipher, block,
    encrypt: {
        let data = u128::from_be_bytes(block.clone_in().into());
        block.get_out().copy_from_slice(&toy_enc(cipher.k, data).to_be_bytes());
    }
    decrypt: {
        let data = u128::from_be_bytes(block.clone_in().into());
        block.get_out().copy_from_slice(&toy_dec(cipher.k, data).to_be_bytes());
    }
);
