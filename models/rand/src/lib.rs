//! Model of rand (M4): `rng().random::<T>()` returns the next value of a harness-filled queue, so
//! "randomness = an arbitrary value of the type" and the harness knows which values were drawn.
pub const QN: usize = 8;
pub static mut QUEUE: [u64; QN] = [0; QN];
pub static mut DRAWN: usize = 0;

pub fn next_u64() -> u64 {
    unsafe {
        let i = DRAWN;
        DRAWN += 1;
        if i < QN {
            QUEUE[i]
        } else {
            // model bound: more draws than the harness scripted
            0
        }
    }
}

pub struct ThreadRng;
pub fn rng() -> ThreadRng {
    ThreadRng
}

pub trait FromRandom {
    fn from_u64(v: u64) -> Self;
}
impl FromRandom for i64 {
    fn from_u64(v: u64) -> Self {
        v as i64
    }
}
impl FromRandom for u64 {
    fn from_u64(v: u64) -> Self {
        v
    }
}
impl FromRandom for u32 {
    fn from_u64(v: u64) -> Self {
        v as u32
    }
}

pub trait Rng {
    fn random<T: FromRandom>(&mut self) -> T {
        T::from_u64(next_u64())
    }
}
impl Rng for ThreadRng {}
