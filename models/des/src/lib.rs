//! Model of des::Des (M5): a toy *bijective, key-dependent* 64-bit block map standing in for DES.
//! The real `cipher`, `cbc` traits and mode implementations stay; only the 16-round primitive is replaced,
//! because the properties are about what gufo_snmp FEEDS the cipher (key split, IV, plaintext, padding).
//!   E_k(x) = rotl8(x ^ k) ^ rotl1(k)        D_k(y) = rotr8(y ^ rotl1(k)) ^ k
use cipher::{consts::U8, BlockCipher, Key, KeyInit, KeySizeUser};

#[derive(Clone)]
pub struct Des {
    pub k: u64,
}

pub fn toy_enc(k: u64, x: u64) -> u64 {
    (x ^ k).rotate_left(8) ^ k.rotate_left(1)
}
pub fn toy_dec(k: u64, y: u64) -> u64 {
    (y ^ k.rotate_left(1)).rotate_right(8) ^ k
}

impl BlockCipher for Des {}
impl KeySizeUser for Des {
    type KeySize = U8;
}
impl KeyInit for Des {
    fn new(key: &Key<Self>) -> Self {
        Des { k: u64::from_be_bytes(key.clone().into()) }
    }
}

cipher::impl_simple_block_encdec!(
    Des, U8, cipher, block,
    encrypt: {
        let data = u64::from_be_bytes(block.clone_in().into());
        block.get_out().copy_from_slice(&toy_enc(cipher.k, data).to_be_bytes());
    }
    decrypt: {
        let data = u64::from_be_bytes(block.clone_in().into());
        block.get_out().copy_from_slice(&toy_dec(cipher.k, data).to_be_bytes());
    }
);
