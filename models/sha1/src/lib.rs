//! Model of sha1 (M6): transcript digest with the real output size.  See digest-model.
pub use digest::{self, Digest};
pub type Sha1 = digest_model::Transcript<digest::consts::U20>;
