//! Model of the part of pyo3 0.24 that gufo_snmp uses (M1, DESIGN.md section 3).
//!
//! Python objects are flat, `Copy`, fixed-capacity Rust values that a Kani harness can inspect:
//! the repository's *decisions* (which object, which type, which order, which exception class)
//! are preserved; CPython itself is not modelled.  Capacity limits are model bounds: exceeding
//! them is reported through `MODEL_BOUND_EXCEEDED`, which harnesses assert to be false.
#![allow(clippy::all)]
use std::marker::PhantomData;

pub use pyo3_macros::{pyclass, pyfunction, pymethods, pymodule};

pub const BLOB_CAP: usize = 8;
pub const SEQ_CAP: usize = 4;

pub static mut MODEL_BOUND_EXCEEDED: bool = false;
fn bound_exceeded() {
    unsafe { MODEL_BOUND_EXCEEDED = true }
}

/// Content of a `str` / `bytes` object: length, the first BLOB_CAP octets, and the address it was built from.
#[derive(Clone, Copy, Debug, PartialEq)]
pub struct Blob {
    pub len: usize,
    pub data: [u8; BLOB_CAP],
    pub src: usize,
}

impl Blob {
    pub fn new(s: &[u8]) -> Blob {
        // unrolled on purpose: no loop in model code, so harness unwind bounds are dictated by repository code only
        let n = s.len();
        let mut data = [0u8; BLOB_CAP];
        macro_rules! cp {
            ($($i:expr),*) => { $( if $i < n { data[$i] = s[$i]; } )* };
        }
        cp!(0, 1, 2, 3, 4, 5, 6, 7);
        Blob { len: n, data, src: s.as_ptr() as usize }
    }
    /// Equality on (length, captured prefix); exact when len <= BLOB_CAP.
    pub fn same_content(&self, s: &[u8]) -> bool {
        if self.len != s.len() {
            return false;
        }
        let n = s.len();
        let mut ok = true;
        macro_rules! cmp {
            ($($i:expr),*) => { $( if $i < n && self.data[$i] != s[$i] { ok = false; } )* };
        }
        cmp!(0, 1, 2, 3, 4, 5, 6, 7);
        ok
    }
}

#[derive(Clone, Copy, Debug, PartialEq)]
pub enum Leaf {
    None,
    Bool(bool),
    /// Python int built from an `i64`
    I64(i64),
    /// Python int built from a `u32`
    U32(u32),
    /// Python int built from a `u64`
    U64(u64),
    Float(f64),
    Str(Blob),
    Bytes(Blob),
}

/// Handle of an object in the object table `OBJS` (objects live out of line so that moving a `Bound`, a `Py` or a
/// `Result<Bound, _>` is one machine word: by-value nesting made CBMC copy ~300-octet enums at every move).
pub type ObjId = usize;

#[derive(Clone, Copy, Debug, PartialEq)]
pub enum Item {
    /// the Python `None` object as a list element
    NoneMarker,
    /// a pair of LEAF object ids
    Pair(ObjId, ObjId),
}

#[derive(Clone, Copy, Debug, PartialEq)]
pub struct Seq {
    pub n: usize,
    pub items: [Item; SEQ_CAP],
}

impl Seq {
    pub const fn empty() -> Seq {
        Seq { n: 0, items: [Item::NoneMarker; SEQ_CAP] }
    }
}

#[derive(Clone, Copy, Debug, PartialEq)]
pub enum Obj {
    Leaf(Leaf),
    /// a 2-tuple of leaf objects: `(oid, value)`, by id
    Pair(ObjId, ObjId),
    List(Seq),
    /// insertion-ordered; `set_item` on an equal key replaces the value in place
    Dict(Seq),
}

impl Obj {
    pub fn leaf(&self) -> Option<Leaf> {
        match self {
            Obj::Leaf(l) => Some(*l),
            _ => None,
        }
    }
}

pub const OBJ_N: usize = 14;
pub static mut OBJS: [Obj; OBJ_N] = [Obj::Leaf(Leaf::None); OBJ_N];
pub static mut OBJ_NEXT: usize = 0;

pub fn alloc_obj(o: Obj) -> ObjId {
    unsafe {
        let i = OBJ_NEXT;
        if i < OBJ_N {
            OBJS[i] = o;
            OBJ_NEXT = i + 1;
            i
        } else {
            bound_exceeded();
            0
        }
    }
}
pub fn obj_at(i: ObjId) -> Obj {
    unsafe {
        if i < OBJ_N {
            OBJS[i]
        } else {
            Obj::Leaf(Leaf::None)
        }
    }
}
/// Python equality of two leaf objects: `str`/`bytes` compare by CONTENT (the address they were built from is
/// irrelevant), everything else structurally.
pub fn leaf_same(a: &Leaf, b: &Leaf) -> bool {
    match (a, b) {
        (Leaf::Str(x), Leaf::Str(y)) | (Leaf::Bytes(x), Leaf::Bytes(y)) => x.len == y.len && x.data == y.data,
        _ => a == b,
    }
}

/// Leaf stored at `i` (None object if `i` is not a leaf).
pub fn leaf_at(i: ObjId) -> Leaf {
    match obj_at(i) {
        Obj::Leaf(l) => l,
        _ => Leaf::None,
    }
}
fn set_obj(i: ObjId, o: Obj) {
    unsafe {
        if i < OBJ_N {
            OBJS[i] = o;
        }
    }
}

// ---------------------------------------------------------------------------------------
// Python token, references

#[derive(Clone, Copy)]
pub struct Python<'py>(PhantomData<&'py ()>);

impl<'py> Python<'py> {
    pub fn with_gil<F, R>(f: F) -> R
    where
        F: for<'p> FnOnce(Python<'p>) -> R,
    {
        f(Python(PhantomData))
    }
    pub fn allow_threads<T, F>(self, f: F) -> T
    where
        F: FnOnce() -> T,
    {
        f()
    }
    #[allow(non_snake_case)]
    pub fn None(self) -> PyObject {
        Py(alloc_obj(Obj::Leaf(Leaf::None)), PhantomData)
    }
    /// Harness-side: obtain a token without a closure.
    pub fn assume_gil() -> Python<'static> {
        Python(PhantomData)
    }
}

pub struct PyAny;

#[repr(transparent)]
pub struct Bound<'py, T>(pub ObjId, PhantomData<(&'py (), T)>);

impl<'py, T> Bound<'py, T> {
    pub fn from_obj(o: Obj) -> Self {
        Bound(alloc_obj(o), PhantomData)
    }
    pub fn obj(&self) -> Obj {
        obj_at(self.0)
    }
    pub fn id(&self) -> ObjId {
        self.0
    }
    pub fn into_any(self) -> Bound<'py, PyAny> {
        Bound(self.0, PhantomData)
    }
    pub fn as_any(&self) -> &Bound<'py, PyAny> {
        // same representation: only the phantom type differs
        unsafe { &*(self as *const Bound<'py, T> as *const Bound<'py, PyAny>) }
    }
    pub fn unbind(self) -> Py<T> {
        Py(self.0, PhantomData)
    }
}

impl<'py, T> Clone for Bound<'py, T> {
    /// a new reference to the same object
    fn clone(&self) -> Self {
        Bound(self.0, PhantomData)
    }
}

pub struct Borrowed<'a, 'py, T>(Bound<'py, T>, PhantomData<&'a ()>);

impl<'a, 'py, T> Borrowed<'a, 'py, T> {
    pub fn to_owned(self) -> Bound<'py, T> {
        self.0
    }
}

impl<'a, 'py, T> std::ops::Deref for Borrowed<'a, 'py, T> {
    type Target = Bound<'py, T>;
    fn deref(&self) -> &Bound<'py, T> {
        &self.0
    }
}

pub struct Py<T>(pub ObjId, PhantomData<T>);
pub type PyObject = Py<PyAny>;

impl<T> Py<T> {
    pub fn obj(&self) -> Obj {
        obj_at(self.0)
    }
    pub fn id(&self) -> ObjId {
        self.0
    }
}

impl<'py, T> From<Bound<'py, T>> for Py<PyAny> {
    fn from(b: Bound<'py, T>) -> Self {
        Py(b.0, PhantomData)
    }
}

pub trait HasObj {
    fn get_id(&self) -> ObjId;
}
impl<'py, T> HasObj for Bound<'py, T> {
    fn get_id(&self) -> ObjId {
        self.0
    }
}
impl<'a, 'py, T> HasObj for Borrowed<'a, 'py, T> {
    fn get_id(&self) -> ObjId {
        self.0 .0
    }
}
impl<T> HasObj for Py<T> {
    fn get_id(&self) -> ObjId {
        self.0
    }
}

// ---------------------------------------------------------------------------------------
// Errors

pub type PyResult<T> = Result<T, PyErr>;

#[derive(Clone, Copy, Debug, PartialEq)]
pub struct PyErr {
    /// class id (FNV-1a of the Rust type name of the exception class)
    pub ty: u32,
    /// ancestor class ids, nearest first, zero padded
    pub chain: [u32; 4],
}

impl PyErr {
    pub fn of<E: ExcClass, A: PyErrArguments>(_a: A) -> PyErr {
        PyErr { ty: E::ID, chain: E::CHAIN }
    }
    pub fn is<E: ExcClass>(&self) -> bool {
        self.ty == E::ID
    }
    pub fn is_instance_of<E: ExcClass>(&self) -> bool {
        self.ty == E::ID || self.chain[0] == E::ID || self.chain[1] == E::ID || self.chain[2] == E::ID || self.chain[3] == E::ID
    }
}

impl std::fmt::Display for PyErr {
    fn fmt(&self, _f: &mut std::fmt::Formatter<'_>) -> std::fmt::Result {
        Ok(())
    }
}

pub trait PyErrArguments {}
impl PyErrArguments for &'static str {}
impl PyErrArguments for String {}

pub trait ExcClass {
    const ID: u32;
    const CHAIN: [u32; 4];
}

pub const fn fnv(s: &str) -> u32 {
    let b = s.as_bytes();
    let mut h: u32 = 0x811c9dc5;
    let mut i = 0;
    while i < b.len() {
        h ^= b[i] as u32;
        h = h.wrapping_mul(0x01000193);
        i += 1;
    }
    if h == 0 {
        1
    } else {
        h
    }
}

pub const fn chain_push(parent: u32, c: [u32; 4]) -> [u32; 4] {
    [parent, c[0], c[1], c[2]]
}

#[macro_export]
macro_rules! create_exception {
    ($module:ident, $name:ident, $base:ty, $doc:expr) => {
        pub struct $name;
        impl $crate::ExcClass for $name {
            const ID: u32 = $crate::fnv(stringify!($name));
            const CHAIN: [u32; 4] = $crate::chain_push(<$base as $crate::ExcClass>::ID, <$base as $crate::ExcClass>::CHAIN);
        }
        impl $name {
            pub fn new_err<A: $crate::PyErrArguments>(a: A) -> $crate::PyErr {
                $crate::PyErr::of::<$name, A>(a)
            }
        }
    };
}

pub mod exceptions {
    pub struct PyBaseException;
    impl crate::ExcClass for PyBaseException {
        const ID: u32 = crate::fnv("PyBaseException");
        const CHAIN: [u32; 4] = [0; 4];
    }
    macro_rules! builtin {
        ($name:ident, $base:ty) => {
            pub struct $name;
            impl crate::ExcClass for $name {
                const ID: u32 = crate::fnv(stringify!($name));
                const CHAIN: [u32; 4] = crate::chain_push(<$base as crate::ExcClass>::ID, <$base as crate::ExcClass>::CHAIN);
            }
            impl $name {
                pub fn new_err<A: crate::PyErrArguments>(a: A) -> crate::PyErr {
                    crate::PyErr::of::<$name, A>(a)
                }
            }
        };
    }
    builtin!(PyException, PyBaseException);
    builtin!(PyValueError, PyException);
    builtin!(PyRuntimeError, PyException);
    builtin!(PyNotImplementedError, PyRuntimeError);
    builtin!(PyOSError, PyException);
    builtin!(PyBlockingIOError, PyOSError);
    builtin!(PyTimeoutError, PyOSError);
    builtin!(PyStopAsyncIteration, PyException);
    builtin!(PyStopIteration, PyException);
}

// ---------------------------------------------------------------------------------------
// Conversions

pub trait IntoPyObject<'py>: Sized {
    type Target;
    type Output: HasObj;
    type Error;
    fn into_pyobject(self, py: Python<'py>) -> Result<Self::Output, Self::Error>;
}

pub mod types {
    use super::*;
    pub struct PyInt;
    pub struct PyFloat;
    pub struct PyBool;
    pub struct PyBytes;
    pub struct PyString;
    pub struct PyNone;
    pub struct PyTuple;
    pub struct PyList;
    pub struct PyDict;

    impl PyBool {
        pub fn new<'py>(_py: Python<'py>, v: bool) -> Borrowed<'py, 'py, PyBool> {
            Borrowed(Bound::from_obj(Obj::Leaf(Leaf::Bool(v))), PhantomData)
        }
    }
    impl PyBytes {
        pub fn new<'py>(_py: Python<'py>, s: &[u8]) -> Bound<'py, PyBytes> {
            Bound::from_obj(Obj::Leaf(Leaf::Bytes(Blob::new(s))))
        }
    }
    impl PyString {
        pub fn new<'py>(_py: Python<'py>, s: &str) -> Bound<'py, PyString> {
            Bound::from_obj(Obj::Leaf(Leaf::Str(Blob::new(s.as_bytes()))))
        }
    }
    impl PyNone {
        pub fn get<'py>(_py: Python<'py>) -> Borrowed<'py, 'py, PyNone> {
            Borrowed(Bound::from_obj(Obj::Leaf(Leaf::None)), PhantomData)
        }
    }
    impl PyTuple {
        /// Only 2-tuples of leaves are modelled (the repository builds nothing else).
        pub fn new<'py>(_py: Python<'py>, elements: Vec<Bound<'py, PyAny>>) -> PyResult<Bound<'py, PyTuple>> {
            let o = if elements.len() == 2 {
                Obj::Pair(elements[0].id(), elements[1].id())
            } else {
                bound_exceeded();
                Obj::Leaf(Leaf::None)
            };
            std::mem::forget(elements);
            Ok(Bound::from_obj(o))
        }
    }
    impl PyList {
        pub fn empty<'py>(_py: Python<'py>) -> Bound<'py, PyList> {
            Bound::from_obj(Obj::List(Seq::empty()))
        }
    }
    impl PyDict {
        pub fn new<'py>(_py: Python<'py>) -> Bound<'py, PyDict> {
            Bound::from_obj(Obj::Dict(Seq::empty()))
        }
    }

    impl<'py> Bound<'py, PyList> {
        pub fn append<I>(&self, item: I) -> PyResult<()>
        where
            I: IntoPyObject<'py>,
            I::Error: Into<PyErr>,
        {
            let id = item.into_pyobject(Python(PhantomData)).map_err(Into::into)?.get_id();
            let it = match obj_at(id) {
                Obj::Leaf(Leaf::None) => Item::NoneMarker,
                Obj::Pair(a, b) => Item::Pair(a, b),
                _ => {
                    bound_exceeded();
                    Item::NoneMarker
                }
            };
            if let Obj::List(mut s) = obj_at(self.0) {
                if s.n < SEQ_CAP {
                    s.items[s.n] = it;
                    s.n += 1;
                } else {
                    bound_exceeded();
                }
                set_obj(self.0, Obj::List(s));
            }
            Ok(())
        }
        pub fn is_empty(&self) -> bool {
            match obj_at(self.0) {
                Obj::List(s) => s.n == 0,
                _ => true,
            }
        }
        pub fn len(&self) -> usize {
            match obj_at(self.0) {
                Obj::List(s) => s.n,
                _ => 0,
            }
        }
    }

    impl<'py> Bound<'py, PyDict> {
        pub fn set_item<K, V>(&self, key: K, value: V) -> PyResult<()>
        where
            K: IntoPyObject<'py>,
            V: IntoPyObject<'py>,
            K::Error: Into<PyErr>,
            V::Error: Into<PyErr>,
        {
            let py = Python(PhantomData);
            let k = key.into_pyobject(py).map_err(Into::into)?.get_id();
            let v = value.into_pyobject(py).map_err(Into::into)?.get_id();
            let kl = leaf_at(k);
            if let Obj::Dict(mut s) = obj_at(self.0) {
                let mut i = 0;
                let mut found = false;
                while i < SEQ_CAP {
                    if i < s.n {
                        if let Item::Pair(ek, _) = s.items[i] {
                            // keys are str objects: equal keys = equal text
                            if !found && leaf_same(&leaf_at(ek), &kl) {
                                s.items[i] = Item::Pair(ek, v);
                                found = true;
                            }
                        }
                    }
                    i += 1;
                }
                if !found {
                    if s.n < SEQ_CAP {
                        s.items[s.n] = Item::Pair(k, v);
                        s.n += 1;
                    } else {
                        bound_exceeded();
                    }
                }
                set_obj(self.0, Obj::Dict(s));
            }
            Ok(())
        }
    }
}

use types::*;

macro_rules! int_into {
    ($t:ty, $variant:ident) => {
        impl<'py> IntoPyObject<'py> for $t {
            type Target = PyInt;
            type Output = Bound<'py, PyInt>;
            type Error = std::convert::Infallible;
            fn into_pyobject(self, _py: Python<'py>) -> Result<Self::Output, Self::Error> {
                Ok(Bound::from_obj(Obj::Leaf(Leaf::$variant(self))))
            }
        }
    };
}
int_into!(i64, I64);
int_into!(u32, U32);
int_into!(u64, U64);

impl<'py> IntoPyObject<'py> for f64 {
    type Target = PyFloat;
    type Output = Bound<'py, PyFloat>;
    type Error = std::convert::Infallible;
    fn into_pyobject(self, _py: Python<'py>) -> Result<Self::Output, Self::Error> {
        Ok(Bound::from_obj(Obj::Leaf(Leaf::Float(self))))
    }
}

impl<'py, T> IntoPyObject<'py> for Bound<'py, T> {
    type Target = T;
    type Output = Bound<'py, T>;
    type Error = std::convert::Infallible;
    fn into_pyobject(self, _py: Python<'py>) -> Result<Self::Output, Self::Error> {
        Ok(self)
    }
}

impl<'py, T> IntoPyObject<'py> for Py<T> {
    type Target = T;
    type Output = Bound<'py, T>;
    type Error = std::convert::Infallible;
    fn into_pyobject(self, _py: Python<'py>) -> Result<Self::Output, Self::Error> {
        Ok(Bound(self.0, PhantomData))
    }
}

impl From<std::convert::Infallible> for PyErr {
    fn from(_: std::convert::Infallible) -> PyErr {
        unreachable!()
    }
}

// ---------------------------------------------------------------------------------------

pub mod pybacked {
    /// `str` argument handed over by Python.  Holds a `&'static str` (harness texts are literals): an owned String
    /// would be freed inside the repository's from_python(), and CBMC then reports spurious dereference failures
    /// on the NEXT heap allocation (the buffer pool's Vec) - measured, see DESIGN.md.
    pub struct PyBackedStr(pub &'static str);
    impl PyBackedStr {
        pub fn new(s: &'static str) -> Self {
            PyBackedStr(s)
        }
    }
    impl AsRef<str> for PyBackedStr {
        fn as_ref(&self) -> &str {
            self.0
        }
    }
    impl std::ops::Deref for PyBackedStr {
        type Target = str;
        fn deref(&self) -> &str {
            self.0
        }
    }
}

pub struct PyModule;

pub mod prelude {
    pub use crate::{pyclass, pyfunction, pymethods, pymodule};
    pub use crate::{Bound, IntoPyObject, Py, PyAny, PyErr, PyModule, PyObject, PyResult, Python};
}
