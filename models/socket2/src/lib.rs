//! Model of socket2::Socket (M3): a scripted UDP socket with a virtual clock.
//!
//! * `recv` pops the next datagram of the harness-filled queue `rx`, or fails with `rx_empty_kind`
//!   (default WouldBlock) when the queue is exhausted.
//! * `send` records address and length of the datagram (last one) and counts sends.
//! * every option setter records its argument.
//! * virtual clock: a `recv` that returns a datagram advances `elapsed_ns` by that datagram's
//!   `delay_ns` (harness-chosen, must be <= the armed read timeout for a blocking socket); a `recv`
//!   that finds the queue empty advances it by the armed read timeout (blocking) or by 0 (non-blocking).
use std::cell::Cell;
use std::io;
use std::mem::MaybeUninit;
use std::net::SocketAddr;
use std::time::Duration;

pub const DCAP: usize = 160;
pub const RX_N: usize = 3;

#[derive(Clone, Copy)]
pub struct Domain(pub u8);
impl Domain {
    pub const IPV4: Domain = Domain(4);
    pub const IPV6: Domain = Domain(6);
}
#[derive(Clone, Copy)]
pub struct Type(pub u8);
impl Type {
    pub const DGRAM: Type = Type(2);
    pub const STREAM: Type = Type(1);
}
#[derive(Clone, Copy)]
pub struct Protocol(pub u8);
impl Protocol {
    pub const UDP: Protocol = Protocol(17);
    pub const TCP: Protocol = Protocol(6);
}

pub struct SockAddr(pub SocketAddr);
impl From<SocketAddr> for SockAddr {
    fn from(a: SocketAddr) -> Self {
        SockAddr(a)
    }
}

#[derive(Clone, Copy)]
pub struct Dgram {
    pub len: usize,
    pub data: [u8; DCAP],
    pub delay_ns: u64,
}

pub struct Socket {
    pub domain: u8,
    pub rx: [Dgram; RX_N],
    pub rx_len: usize,
    pub rx_pos: usize,
    pub rx_empty_kind: io::ErrorKind,
    pub recv_calls: usize,
    pub tx_ptr: usize,
    pub tx_len: usize,
    pub tx_count: usize,
    pub send_fail: bool,
    pub read_timeout_ns: Cell<Option<u64>>,
    /// the Duration exactly as handed to set_read_timeout (comparing Durations avoids a symbolic 64-bit division)
    pub read_timeout: Cell<Option<Duration>>,
    pub nonblocking: Cell<bool>,
    pub tos: Cell<Option<u32>>,
    pub connected: Cell<bool>,
    pub elapsed_ns: u64,
}

// single-threaded model; the repository requires its sockets to be Send + Sync
unsafe impl Sync for Socket {}

impl Socket {
    pub fn new(domain: Domain, _ty: Type, _protocol: Option<Protocol>) -> io::Result<Socket> {
        Ok(Socket {
            domain: domain.0,
            rx: [Dgram { len: 0, data: [0; DCAP], delay_ns: 0 }; RX_N],
            rx_len: 0,
            rx_pos: 0,
            rx_empty_kind: io::ErrorKind::WouldBlock,
            recv_calls: 0,
            tx_ptr: 0,
            tx_len: 0,
            tx_count: 0,
            send_fail: false,
            read_timeout_ns: Cell::new(None),
            read_timeout: Cell::new(None),
            nonblocking: Cell::new(false),
            tos: Cell::new(None),
            connected: Cell::new(false),
            elapsed_ns: 0,
        })
    }
    pub fn set_read_timeout(&self, _d: Option<Duration>) -> io::Result<()> {
        self.read_timeout.set(_d);
        // nanoseconds for the virtual clock: seconds * 10^9 + subsec (no u128 arithmetic)
        self.read_timeout_ns.set(_d.map(|d| d.as_secs().wrapping_mul(1_000_000_000).wrapping_add(d.subsec_nanos() as u64)));
        Ok(())
    }
    pub fn read_timeout(&self) -> io::Result<Option<Duration>> {
        Ok(self.read_timeout_ns.get().map(Duration::from_nanos))
    }
    pub fn set_nonblocking(&self, v: bool) -> io::Result<()> {
        self.nonblocking.set(v);
        Ok(())
    }
    pub fn set_tos(&self, v: u32) -> io::Result<()> {
        self.tos.set(Some(v));
        Ok(())
    }
    pub fn set_send_buffer_size(&self, _v: usize) -> io::Result<()> {
        Ok(())
    }
    pub fn set_recv_buffer_size(&self, _v: usize) -> io::Result<()> {
        Ok(())
    }
    pub fn connect(&self, _a: &SockAddr) -> io::Result<()> {
        self.connected.set(true);
        Ok(())
    }
    pub fn send(&mut self, buf: &[u8]) -> io::Result<usize> {
        if self.send_fail {
            return Err(io::Error::from(io::ErrorKind::PermissionDenied));
        }
        // The datagram is NOT copied (a copy of symbolic length from a symbolic offset is what CBMC is worst at):
        // its address and length are recorded.  gufo_snmp always sends `Buffer::data()`, i.e. the LAST `n` octets of a
        // pooled message buffer, which stay in place after the send (reset only moves the position), so harnesses read
        // them back from the pooled buffer.  `tx_end` lets them check that the slice really ended at the buffer's end.
        let n = buf.len();
        self.tx_ptr = buf.as_ptr() as usize;
        self.tx_len = n;
        self.tx_count += 1;
        Ok(n)
    }
    pub fn recv(&mut self, buf: &mut [MaybeUninit<u8>]) -> io::Result<usize> {
        self.recv_calls += 1;
        if self.rx_pos < self.rx_len && self.rx_pos < RX_N {
            let d = &self.rx[self.rx_pos];
            self.rx_pos += 1;
            self.elapsed_ns = self.elapsed_ns.saturating_add(d.delay_ns);
            // copy the whole fixed-size slot (concrete size); only `len` octets are meaningful
            let n = if buf.len() < DCAP { buf.len() } else { DCAP };
            unsafe {
                std::ptr::copy_nonoverlapping(d.data.as_ptr(), buf.as_mut_ptr() as *mut u8, n);
            }
            Ok(if d.len < n { d.len } else { n })
        } else {
            if !self.nonblocking.get() {
                self.elapsed_ns = self.elapsed_ns.saturating_add(self.read_timeout_ns.get().unwrap_or(u64::MAX));
            }
            Err(io::Error::from(self.rx_empty_kind))
        }
    }
}

impl std::os::fd::AsRawFd for Socket {
    fn as_raw_fd(&self) -> std::os::fd::RawFd {
        3
    }
}
