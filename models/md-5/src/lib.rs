//! Model of md-5 (M6): transcript digest with the real output size.  See digest-model.
pub use digest::{self, Digest};
pub type Md5 = digest_model::Transcript<digest::consts::U16>;
