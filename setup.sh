#!/bin/sh
# Offline setup: generate the harness crates from /repo and warm the Kani build caches.
# Nothing here is needed for correctness: every check regenerates and rebuilds what it needs.
set -e
cd "$(dirname "$0")"
export CARGO_NET_OFFLINE=true
python3 -c "import sys; sys.path.insert(0,'.'); from lib import gen; print(gen.generate('real'))"
python3 warm.py || true
