"""Stand-in for the compiled extension `gufo.snmp._fast`, installed into sys.modules BEFORE the real Python
modules of /repo/src/gufo/snmp are imported.  The socket classes are scripted fakes that record the calls made
on them; their results come from a script the contract supplies (CrossHair-symbolic values)."""
import os
import sys
import types

REPO = os.environ.get("VERIF_REPO", "/repo")


class SnmpError(Exception):
    pass


class SnmpEncodeError(SnmpError):
    pass


class SnmpDecodeError(SnmpError):
    pass


class SnmpAuthError(SnmpError):
    pass


class NoSuchInstance(SnmpError):
    pass


class GetIter:
    def __init__(self, oid, max_repetitions=None):
        self.oid = oid
        self.max_repetitions = max_repetitions


class _FakeSocket:
    """Scripted socket: every operation pops the next item of `script`; an item that is an exception
    instance/class is raised, anything else is returned."""

    def __init__(self, *args):
        self.ctor_args = args
        self.calls = []
        self.script = []

    def _next(self, what, *args):
        self.calls.append((what,) + args)
        if not self.script:
            raise BlockingIOError
        item = self.script.pop(0)
        if isinstance(item, BaseException) or (isinstance(item, type) and issubclass(item, BaseException)):
            raise item
        return item

    def get_fd(self):
        return 3

    def get(self, oid):
        return self._next("get", oid)

    def get_many(self, oids):
        return self._next("get_many", tuple(oids))

    def get_next(self, it):
        return self._next("get_next", it)

    def get_bulk(self, it):
        return self._next("get_bulk", it)

    def _sent(self, what, *args):
        self.calls.append((what,) + args)

    def send_get(self, oid):
        return self._sent("send_get", oid)

    def recv_get(self):
        return self._next("recv_get")

    def send_get_many(self, oids):
        return self._sent("send_get_many", tuple(oids))

    def recv_get_many(self):
        return self._next("recv_get_many")

    def send_get_next(self, it):
        return self._sent("send_get_next", it)

    def recv_get_next(self, it):
        return self._next("recv_get_next", it)

    def send_get_bulk(self, it):
        return self._sent("send_get_bulk", it)

    def recv_get_bulk(self, it):
        return self._next("recv_get_bulk", it)


class SnmpV1ClientSocket(_FakeSocket):
    pass


class SnmpV2cClientSocket(_FakeSocket):
    pass


class SnmpV3ClientSocket(_FakeSocket):
    def refresh(self):
        return self._next("refresh")

    def send_refresh(self):
        return self._sent("send_refresh")

    def recv_refresh(self):
        return self._next("recv_refresh")

    def set_keys(self, *args):
        self.calls.append(("set_keys",) + args)

    def get_engine_id(self):
        return b"engine"


def get_master_key(alg, passwd):
    return b"M" * (16 if alg == 1 else 20)


def get_localized_key(alg, master, engine_id):
    return b"L" * len(master)


def install():
    if REPO + "/src" not in sys.path:
        sys.path.insert(0, REPO + "/src")
    m = types.ModuleType("gufo.snmp._fast")
    for k, v in globals().items():
        if k[0].isupper() or k.startswith("get_"):
            setattr(m, k, v)
    sys.modules["gufo.snmp._fast"] = m
    return m


install()
