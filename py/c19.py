"""C19 - the rate limiter never lets the request rate exceed rps.  CrossHair contracts over the REAL
gufo.snmp.policer.RPSPolicer (imported from /repo/src).  All integers symbolic, including the interval."""
import fake_fast  # noqa: F401  (must come first)
from typing import List, Optional, Tuple

from gufo.snmp.policer import RPSPolicer


def _mk(prev: Optional[int], delta: int) -> RPSPolicer:
    p = RPSPolicer.__new__(RPSPolicer)
    p._prev = prev
    p._delta = delta
    return p


#@ C19 quick | inductive step of get_timeout from ANY state satisfying the invariant prev <= last_release < prev+delta, any call time ts >= last_release, any delta > 0
def step(prev: int, delta: int, r_last: int, ts: int) -> Tuple[int, int, int]:
    """
    pre: delta > 0
    pre: prev <= r_last < prev + delta
    pre: ts >= r_last
    post: 0 <= __return__[0] <= delta
    post: __return__[1] >= prev + delta
    post: __return__[1] <= __return__[2] < __return__[1] + delta
    post: __return__[2] - r_last > 0
    """
    p = _mk(prev, delta)
    t = p.get_timeout(ts)
    timeout = t if t is not None else 0
    release = ts + timeout
    return (timeout, p._prev, release)


#@ C19 quick | vacuity twin of `step`: a deliberately too-strong postcondition (delay < delta/2) MUST be refuted
def step_twin_must_fail(prev: int, delta: int, r_last: int, ts: int) -> int:
    """
    pre: delta > 1
    pre: prev <= r_last < prev + delta
    pre: ts >= r_last
    post: 2 * __return__ < delta
    """
    p = _mk(prev, delta)
    t = p.get_timeout(ts)
    return t if t is not None else 0


#@ C19 quick | first call: passes immediately and establishes the invariant (prev == ts == release)
def first(delta: int, ts: int) -> Tuple[Optional[int], int]:
    """
    pre: delta > 0
    post: __return__[0] is None
    post: __return__[1] == ts
    """
    p = _mk(None, delta)
    t = p.get_timeout(ts)
    return (t, p._prev)


#@ C19 quick | k=3 real calls from a fresh policer, symbolic non-decreasing call times each >= previous release: delays <= delta and any 3 consecutive releases span > delta
def window3(delta: int, g1: int, g2: int, ts0: int) -> Tuple[int, int, int]:
    """
    pre: delta > 0
    pre: g1 >= 0 and g2 >= 0
    post: __return__[1] - __return__[0] > 0
    post: __return__[2] - __return__[0] > delta
    """
    p = _mk(None, delta)
    t0 = p.get_timeout(ts0) or 0
    r0 = ts0 + t0
    ts1 = r0 + g1
    t1 = p.get_timeout(ts1) or 0
    assert 0 <= t1 <= delta
    r1 = ts1 + t1
    ts2 = r1 + g2
    t2 = p.get_timeout(ts2) or 0
    assert 0 <= t2 <= delta
    r2 = ts2 + t2
    return (r0, r1, r2)


#@ C19 quick | k=4 real calls: r3 - r0 > 2*delta and r3 - r1 > delta (statement with k+1 = 4 and 3 releases)
def window4(delta: int, g1: int, g2: int, g3: int, ts0: int) -> Tuple[int, int, int, int]:
    """
    pre: delta > 0
    pre: g1 >= 0 and g2 >= 0 and g3 >= 0
    post: __return__[3] - __return__[0] > 2 * delta
    post: __return__[3] - __return__[1] > delta
    post: __return__[2] - __return__[0] > delta
    """
    p = _mk(None, delta)
    r = []
    ts = ts0
    for g in (0, g1, g2, g3):
        ts = ts + g
        t = p.get_timeout(ts) or 0
        assert 0 <= t <= delta
        ts = ts + t
        r.append(ts)
    return (r[0], r[1], r[2], r[3])


#@ C19 quick optional | constructor: every non-positive integer rate is refused with ValueError
def ctor_nonpositive(rps: int) -> bool:
    """
    pre: rps <= 0
    post: __return__
    """
    try:
        RPSPolicer(rps)
    except ValueError:
        return True
    return False


#@ C19 quick optional | constructor: every non-positive float rate is refused with ValueError (CrossHair models float as reals)
def ctor_nonpositive_float(rps: float) -> bool:
    """
    pre: rps <= 0.0
    post: __return__
    """
    try:
        RPSPolicer(rps)
    except ValueError:
        return True
    return False


#@ C19 quick optional | constructor: an accepted rate always yields an interval >= 1 ns (else ValueError); float arithmetic modelled by CrossHair as reals
def ctor_positive(rps: int) -> int:
    """
    pre: 1 <= rps <= 4_000_000_000
    post: __return__ == -1 or __return__ >= 1
    """
    try:
        p = RPSPolicer(rps)
    except ValueError:
        return -1
    return p._delta


#@ C19 quick optional | constructor with a FLOAT rate 0.5..1000: interval == floor(1e9 / rps) (>= 1 ns, never shorter than 1/rps - 1 ns); CrossHair treats floats as reals
def ctor_float(rps: float) -> int:
    """
    pre: 0.5 <= rps <= 1000.0
    post: __return__ >= 1
    post: __return__ * rps <= 1_000_000_000.0
    post: (__return__ + 1) * rps > 1_000_000_000.0
    """
    return RPSPolicer(rps)._delta
