"""Python-side contracts over the REAL gufo.snmp.sync_client modules (fake `_fast`): C03 fetch()/version policy,
C07 exception mapping, C13 refresh() sequence, C05/C06 iterator wrappers."""
import fake_fast  # noqa: F401  (must come first)
from typing import List, Optional, Tuple

from gufo.snmp.sync_client.client import SnmpSession
from gufo.snmp.sync_client.getbulk import GetBulkIter
from gufo.snmp.sync_client.getnext import GetNextIter
from gufo.snmp.user import Md5Key, DesKey, KeyType, User
from gufo.snmp.version import SnmpVersion
import gufo.snmp._fast as F


def _session(ver: int, allow_bulk: bool) -> SnmpSession:
    v = [SnmpVersion.v1, SnmpVersion.v2c, SnmpVersion.v3][ver]
    user = User("u") if ver == 2 else None
    return SnmpSession("127.0.0.1", version=v, user=user, engine_id=b"12345" if ver == 2 else None, allow_bulk=allow_bulk)


#@ C03 quick | SnmpSession(version in {v1,v2c,v3}, allow_bulk any): socket class == version asked for; fetch() returns the GetBulk iterator iff version in {v2c,v3} and allow_bulk, else GetNext
def fetch_policy(ver: int, allow_bulk: bool) -> Tuple[int, bool]:
    """
    pre: 0 <= ver <= 2
    post: __return__[0] == ver
    post: __return__[1] == (ver != 0 and allow_bulk)
    """
    s = _session(ver, allow_bulk)
    cls = [F.SnmpV1ClientSocket, F.SnmpV2cClientSocket, F.SnmpV3ClientSocket].index(type(s._sock))
    it = s.fetch("1.3.6")
    return (cls, isinstance(it, GetBulkIter))


#@ C03 quick | vacuity twin of fetch_policy: claiming that v1 may use GetBulk MUST be refuted
def fetch_policy_twin_must_fail(allow_bulk: bool) -> bool:
    """
    post: __return__ == allow_bulk
    """
    s = _session(0, allow_bulk)
    return isinstance(s.fetch("1.3.6"), GetBulkIter)


#@ C03 quick | default version: v2c without a user, v3 with a user (explicit version None)
def default_version(with_user: bool) -> int:
    """
    post: __return__ == (2 if with_user else 1)
    """
    s = SnmpSession("127.0.0.1", user=User("u") if with_user else None, engine_id=b"12345")
    return [F.SnmpV1ClientSocket, F.SnmpV2cClientSocket, F.SnmpV3ClientSocket].index(type(s._sock))


#@ C07,C18 quick | sync get()/get_many(): BlockingIOError from the socket becomes TimeoutError; any other outcome (value or exception) passes through unchanged
def get_maps_blocking_to_timeout(kind: int, value: int, many: bool) -> int:
    """
    pre: 0 <= kind <= 4
    post: __return__ == kind
    """
    s = _session(1, True)
    if kind == 0:
        s._sock.script = [value]
    elif kind == 1:
        s._sock.script = [BlockingIOError]
    elif kind == 2:
        s._sock.script = [F.NoSuchInstance]
    elif kind == 3:
        s._sock.script = [F.SnmpDecodeError]
    else:
        s._sock.script = [OSError]
    try:
        r = s.get_many(["1.3.6"]) if many else s.get("1.3.6")
        assert r == value
        return 0
    except TimeoutError:
        return 1
    except F.NoSuchInstance:
        return 2
    except F.SnmpDecodeError:
        return 3
    except OSError:
        return 4


#@ C13 quick | refresh() with a deferred user (no engine id): socket call sequence is exactly refresh, set_keys(user name, algs, keys), refresh; afterwards _to_refresh == user.require_auth() and the deferred user is dropped; a second refresh() sends at most one refresh
def refresh_sequence(with_auth: bool) -> Tuple[List[str], bool, bool, int]:
    """
    post: __return__[0] == ["refresh", "set_keys", "refresh"]
    post: __return__[1] == with_auth
    post: __return__[2]
    post: __return__[3] == (1 if with_auth else 0)
    """
    user = User("bob", auth_key=Md5Key(b"p" * 8)) if with_auth else User("bob")
    s = SnmpSession("127.0.0.1", user=user)
    s._sock.script = [None, None, None, None]
    s.refresh()
    calls = [c[0] for c in s._sock.calls]
    setk = [c for c in s._sock.calls if c[0] == "set_keys"][0]
    assert setk[1] == "bob" and setk[2] == user.get_auth_alg() and setk[3] == user.get_auth_key()
    n0 = len(s._sock.calls)
    s.refresh()
    return (calls, s._to_refresh, s._deferred_user is None, len(s._sock.calls) - n0)


#@ C05,C06 quick | sync GetNextIter: yields exactly what the socket returns, in order, up to the first StopAsyncIteration (-> StopIteration); BlockingIOError -> TimeoutError
def getnext_iter(n: int, end_kind: int) -> Tuple[int, int]:
    """
    pre: 0 <= n <= 3
    pre: 0 <= end_kind <= 1
    post: __return__[0] == n
    post: __return__[1] == end_kind
    """
    sock = F.SnmpV2cClientSocket()
    sock.script = [("1.3.6.%d" % i, i) for i in range(n)] + [StopAsyncIteration if end_kind == 0 else BlockingIOError]
    it = GetNextIter(sock, "1.3.6")
    got = []
    try:
        for item in it:
            got.append(item)
        end = 0
    except TimeoutError:
        end = 1
    assert got == [("1.3.6.%d" % i, i) for i in range(n)]
    return (len(got), end)


#@ C05,C06 quick | sync GetBulkIter: concatenation of the socket's lists in order; stops at the None marker, at an empty list or at StopAsyncIteration; never yields after the marker; one request per exhausted buffer
def getbulk_iter(a: int, b: int, marker_in_first: bool, end_kind: int) -> Tuple[int, int]:
    """
    pre: 1 <= a <= 3
    pre: 0 <= b <= 3
    pre: 0 <= end_kind <= 2
    post: __return__[0] == (a if marker_in_first else a + b)
    post: __return__[1] <= 3
    """
    sock = F.SnmpV2cClientSocket()
    first = [("1.%d" % i, i) for i in range(a)]
    second = [("2.%d" % i, i) for i in range(b)]
    if marker_in_first:
        script = [list(first) + [None], list(second)]
    else:
        if end_kind == 0:
            tail = StopAsyncIteration
        elif end_kind == 1:
            tail = []
        else:
            tail = [None]
        script = [list(first)] + ([list(second)] if b else []) + [tail]
    sock.script = list(script)
    it = GetBulkIter(sock, "1.3.6", 10)
    got = list(it)
    want = first if marker_in_first else first + second
    assert got == want
    return (len(got), len(sock.calls))
