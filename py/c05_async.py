"""Async client (gufo.snmp.async_client): the same policy / iterator / refresh contracts as the sync client.
Event-loop I/O (`_send` waits for writability, `_recv` waits on add_reader under asyncio.wait_for) is replaced by
direct calls of the sender / receiver: the overall asyncio deadline is NOT decided here (DESIGN.md, C18)."""
import fake_fast  # noqa: F401
from typing import List, Tuple

from gufo.snmp.async_client.client import GetBulkIter, GetNextIter, SnmpSession
import gufo.snmp._fast as F
from gufo.snmp.user import Md5Key, User
from gufo.snmp.version import SnmpVersion


def run(coro):
    try:
        while True:
            coro.send(None)
    except StopIteration as e:
        return e.value


def _patch(s: SnmpSession) -> SnmpSession:
    async def _send(sender):
        sender()

    async def _recv(receiver):
        try:
            return receiver()
        except BlockingIOError as e:
            raise TimeoutError from e

    s._send = _send
    s._recv = _recv
    return s


def _session(ver: int, allow_bulk: bool) -> SnmpSession:
    v = [SnmpVersion.v1, SnmpVersion.v2c, SnmpVersion.v3][ver]
    user = User("u") if ver == 2 else None
    return _patch(SnmpSession("127.0.0.1", version=v, user=user, engine_id=b"12345" if ver == 2 else None, allow_bulk=allow_bulk))


#@ C03 quick | async SnmpSession: socket class == version asked for; fetch() is GetBulk iff version in {v2c,v3} and allow_bulk
def fetch_policy_async(ver: int, allow_bulk: bool) -> Tuple[int, bool]:
    """
    pre: 0 <= ver <= 2
    post: __return__[0] == ver
    post: __return__[1] == (ver != 0 and allow_bulk)
    """
    s = _session(ver, allow_bulk)
    cls = [F.SnmpV1ClientSocket, F.SnmpV2cClientSocket, F.SnmpV3ClientSocket].index(type(s._sock))
    return (cls, isinstance(s.fetch("1.3.6"), GetBulkIter))


#@ C13 quick | async refresh() with a deferred user: send/recv refresh, set_keys(deferred user), send/recv refresh; _to_refresh == require_auth(); deferred user dropped
def refresh_sequence_async(with_auth: bool) -> Tuple[List[str], bool, bool]:
    """
    post: __return__[0] == ["send_refresh", "recv_refresh", "set_keys", "send_refresh", "recv_refresh"]
    post: __return__[1] == with_auth
    post: __return__[2]
    """
    user = User("bob", auth_key=Md5Key(b"p" * 8)) if with_auth else User("bob")
    s = _patch(SnmpSession("127.0.0.1", user=user))
    s._sock.script = [None, None, None, None]
    run(s.refresh())
    calls = [c[0] for c in s._sock.calls]
    setk = [c for c in s._sock.calls if c[0] == "set_keys"][0]
    assert setk[1] == "bob" and setk[2] == user.get_auth_alg() and setk[3] == user.get_auth_key()
    return (calls, s._to_refresh, s._deferred_user is None)


#@ C05,C06 quick | async GetNextIter.__anext__: yields exactly what recv_get_next returns, in order, until StopAsyncIteration; one send per item
def getnext_iter_async(n: int) -> Tuple[int, int]:
    """
    pre: 0 <= n <= 3
    post: __return__[0] == n
    post: __return__[1] == n + 1
    """
    s = _session(1, False)
    s._sock.script = [("1.3.6.%d" % i, i) for i in range(n)] + [StopAsyncIteration]
    it = s.getnext("1.3.6")
    got = []
    while True:
        try:
            got.append(run(it.__anext__()))
        except StopAsyncIteration:
            break
    assert got == [("1.3.6.%d" % i, i) for i in range(n)]
    sends = len([c for c in s._sock.calls if c[0] == "send_get_next"])
    return (len(got), sends)


#@ C05,C06 quick | async GetBulkIter.__anext__: concatenation of the received lists in order; stops at the None marker / empty list / StopAsyncIteration; never yields after the marker
def getbulk_iter_async(a: int, b: int, marker_in_first: bool, end_kind: int) -> int:
    """
    pre: 1 <= a <= 3
    pre: 0 <= b <= 3
    pre: 0 <= end_kind <= 2
    post: __return__ == (a if marker_in_first else a + b)
    """
    s = _session(1, True)
    first = [("1.%d" % i, i) for i in range(a)]
    second = [("2.%d" % i, i) for i in range(b)]
    if marker_in_first:
        script = [list(first) + [None], list(second)]
    else:
        if end_kind == 0:
            tail = StopAsyncIteration
        elif end_kind == 1:
            tail = []
        else:
            tail = [None]
        script = [list(first)] + ([list(second)] if b else []) + [tail]
    s._sock.script = script
    it = s.getbulk("1.3.6")
    got = []
    while True:
        try:
            got.append(run(it.__anext__()))
        except StopAsyncIteration:
            break
    want = first if marker_in_first else first + second
    assert got == want
    return len(got)
