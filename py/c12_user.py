"""C12 - gufo.snmp.user: key padding and algorithm codes handed to the Rust socket."""
import fake_fast  # noqa: F401
from typing import Tuple

from gufo.snmp.user import Aes128Key, BaseKey, DesKey, KeyType, Md5Key, Sha1Key, User


#@ C12 quick | BaseKey._padded(key, n): result has exactly n octets, equals key[:n] followed by zero octets
def padded(key: bytes, n: int) -> bytes:
    """
    pre: 0 <= n <= 24
    pre: len(key) <= 24
    post: len(__return__) == n
    post: __return__[: min(n, len(key))] == key[: min(n, len(key))]
    post: all(b == 0 for b in __return__[len(key) :])
    """
    return BaseKey._padded(key, n)


#@ C12 quick | get_auth_alg / get_priv_alg == algorithm | key_type << 6 for every key type and algorithm; 0 without keys
def alg_codes(kt: int, sha: bool, aes: bool, with_priv: bool) -> Tuple[int, int]:
    """
    pre: 0 <= kt <= 2
    post: __return__[0] == (2 if sha else 1) | (kt << 6)
    post: __return__[1] == (((2 if aes else 1) | (kt << 6)) if with_priv else 0)
    """
    key_type = [KeyType.Password, KeyType.Master, KeyType.Localized][kt]
    ak = (Sha1Key if sha else Md5Key)(b"k" * 8, key_type=key_type)
    pk = (Aes128Key if aes else DesKey)(b"p" * 8, key_type=key_type) if with_priv else None
    u = User("u", auth_key=ak, priv_key=pk)
    return (u.get_auth_alg(), u.get_priv_alg())


#@ C12 quick | master/localized keys are aligned: auth key to the digest's key length, privacy key to the AUTH key length; passwords are left alone; a privacy key without an auth key is refused
def key_alignment(kt: int, sha: bool, klen: int) -> Tuple[int, int]:
    """
    pre: 0 <= kt <= 2
    pre: 0 <= klen <= 24
    post: __return__[0] == (klen if kt == 0 else (20 if sha else 16))
    post: __return__[1] == (klen if kt == 0 else (20 if sha else 16))
    """
    key_type = [KeyType.Password, KeyType.Master, KeyType.Localized][kt]
    ak = (Sha1Key if sha else Md5Key)(b"k" * klen, key_type=key_type)
    pk = DesKey(b"p" * klen, key_type=key_type)
    u = User("u", auth_key=ak, priv_key=pk)
    try:
        User("u", priv_key=pk)
        raise AssertionError("privacy key without auth key accepted")
    except ValueError:
        pass
    return (len(u.get_auth_key()), len(u.get_priv_key()))
