#!/usr/bin/env python3
"""Run the registered quick checks against every seeded change in /verif/seeded.
usage: seedrun.py [--repo DIR] [--tier quick] [name ...]
Applies patch.diff to the repository copy (never commits), runs ./check <prop>, reverts. Prints a summary table."""
import argparse, json, os, subprocess, sys, time
VERIF = os.path.dirname(os.path.dirname(os.path.abspath(__file__)))
ap = argparse.ArgumentParser()
ap.add_argument("--repo", default=os.environ.get("VP_RUN_REPO") or os.environ.get("VERIF_REPO") or "/repo")
ap.add_argument("--tier", default="quick")
ap.add_argument("--no-replay", action="store_true", help="classify solver counterexamples without the native replay (faster)")
ap.add_argument("--seeds", default="/verif/seeded")
ap.add_argument("names", nargs="*")
a = ap.parse_args()
env = dict(os.environ, VERIF_REPO=a.repo)
rows = []
for name in sorted(os.listdir(a.seeds)):
    d = os.path.join(a.seeds, name)
    if not os.path.isdir(d) or (a.names and name not in a.names):
        continue
    meta = json.load(open(os.path.join(d, "meta.json")))
    props = [meta["property"]] + meta.get("also_check", [])
    subprocess.run(["git", "-C", a.repo, "checkout", "-q", "--", "."])
    r = subprocess.run(["git", "-C", a.repo, "apply", os.path.join(d, "patch.diff")], capture_output=True, text=True)
    if r.returncode:
        rows.append((name, "-", "PATCH DOES NOT APPLY", 0))
        continue
    for prop in props:
        t0 = time.time()
        cmd = [os.path.join(VERIF, "check"), prop, "--tier", a.tier] + (["--no-replay"] if a.no_replay else [])
        p = subprocess.run(cmd, cwd=VERIF, env=env, capture_output=True, text=True)
        viol = [l for l in p.stdout.split("\n") if l.startswith("VIOLATION") or l.strip().startswith("violated in")]
        inc = [l for l in p.stdout.split("\n") if l.startswith("INCONCLUSIVE")]
        cand = [l for l in p.stdout.split("\n") if l.startswith("CANDIDATE")]
        verdict = {0: "MISSED", 1: "DETECTED", 2: "INCONCLUSIVE"}.get(p.returncode, f"exit {p.returncode}")
        if a.no_replay and p.returncode == 2 and cand:
            verdict = "SOLVER-CEX"
            viol = cand
        rows.append((name, prop, verdict, round(time.time() - t0)))
        print(f"{name:10s} {prop} {verdict:13s} {round(time.time()-t0)}s  " + (viol[0][:200] if viol else (inc[0][:200] if inc else "")), flush=True)
    subprocess.run(["git", "-C", a.repo, "checkout", "-q", "--", "."])
print("\nSUMMARY")
for r in rows:
    print("  %-10s %-4s %-13s %ss" % r)
