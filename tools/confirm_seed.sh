#!/bin/bash
# usage: confirm_seed.sh <worktree> <mutation dir>   - confirms a seeded change in a scratch worktree:
#   suite passes with the change; demo passes without the change and fails with it.
WT=$1; M=$2
cd $WT || exit 2
export CARGO_TARGET_DIR=$WT/target CARGO_NET_OFFLINE=true
git checkout -q -- . ; git clean -fdq -e MUTATION -e target
res() { grep -E "^test result" | tail -1; }
git apply $M/patch.diff || { echo "PATCH DOES NOT APPLY"; exit 2; }
echo "patch only:      $(cargo test --offline 2>&1 | res)"
git checkout -q -- .
if [ -f $M/demo.diff ]; then
  git apply $M/demo.diff || { echo "DEMO DOES NOT APPLY"; exit 2; }
  echo "demo only:       $(cargo test --offline 2>&1 | res)"
  git apply $M/patch.diff
  echo "patch + demo:    $(cargo test --offline 2>&1 | res)"
else
  python3 $M/demo.py >/dev/null 2>&1; echo "demo.py without patch: exit $?"
  git apply $M/patch.diff
  python3 $M/demo.py >/dev/null 2>&1; echo "demo.py with patch:    exit $?"
fi
git checkout -q -- . ; git clean -fdq -e MUTATION -e target
