#!/usr/bin/env python3
"""Regenerate /verif/MANIFEST.json from the per-property table below."""
import json, os, sys
VERIF = os.path.dirname(os.path.dirname(os.path.abspath(__file__)))
props = [json.loads(l) for l in open(os.path.join(VERIF, "properties.jsonl"))]
sys.path.insert(0, VERIF)
from lib.claims import CLAIMS, NOT_APPLICABLE  # noqa

import subprocess
HOOK_COMMITS = subprocess.run(["git", "-C", "/repo", "log", "--grep", "^verif hook", "--format=%h"], capture_output=True, text=True).stdout.split()
checks = []
for p in props:
    pid = p["id"]
    if pid not in CLAIMS:
        continue
    c = CLAIMS[pid]
    checks.append({
        "property_id": pid,
        "quick_cmd": f"./check {pid} --tier quick",
        "thorough_cmd": f"./check {pid} --tier thorough",
        "evidence_file": f"/verif/evidence/{pid}.json",
        "replay_cmd_template": f"./check {pid} --replay {{path}}",
        "engine": c.get("engine", "kani"),
        "level_claimed": {"category": "model_checking", "text": c["text"], "design_ref": c["design_ref"]},
        "level_note": c["note"],
        "technique": c["technique"],
    })
na = [{"property_id": p["id"], "reason": NOT_APPLICABLE.get(p["id"], "check not built yet in this round; see DESIGN.md section 6")}
      for p in props if p["id"] not in CLAIMS]
m = {
    "version": 1,
    "setup_cmd": "./setup.sh",
    "hooks": {"guard": "gufo_snmp_verif",
              "enable": "the generated harness crates (.cache/hk-*) carry a build.rs printing cargo:rustc-cfg=gufo_snmp_verif and include /repo/src files via #[path]; hooks: Buffer capacity 160 instead of 4080 (src/buf/buffer.rs), read accessors to the v3 session state (src/socket/v3.rs). The `full` profile builds with the guard off.",
              "baseline_off_cmd": "cd /repo && cargo test --workspace --no-fail-fast --offline",
              "source_commits": HOOK_COMMITS, "add_only": True},
    "engines": [
        {"name": "kani", "path": "/verif/check", "serves_properties": [c["property_id"] for c in checks if c["engine"] in ("kani", "kani+crosshair")],
         "kind_free_text": "Kani 0.68 -> CBMC 6.11 -> CaDiCaL: bounded symbolic execution of /repo/src compiled from the working tree; SAT verdict over all inputs inside the stated bound"},
        {"name": "crosshair", "path": "/verif/check", "serves_properties": [c["property_id"] for c in checks if "crosshair" in c["engine"]],
         "kind_free_text": "CrossHair 0.0.110 + Z3 5.1: symbolic execution of the real Python modules under /repo/src/gufo/snmp; accepted only on 'confirmed over all paths'"},
    ],
    "checks": checks,
    "not_applicable": na,
    "notes": "Exit 0 = all required solver queries decided and property held; exit 1 + VIOLATION line = natively replayed counterexample not in known_findings.json; exit 2 = inconclusive (undecided required query, vacuous harness, build failure, non-reproducing counterexample).",
}
json.dump(m, open(os.path.join(VERIF, "MANIFEST.json"), "w"), indent=1)
print("MANIFEST.json:", len(checks), "claimed,", len(na), "not applicable")
