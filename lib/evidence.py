"""Write /verif/evidence/<id>.json from what the run actually did."""
import json
import os
import subprocess

from . import gen


def _ver(cmd):
    try:
        return subprocess.run(cmd, stdout=subprocess.PIPE, stderr=subprocess.STDOUT, text=True, timeout=20).stdout.strip().split("\n")[0]
    except Exception as e:  # pragma: no cover
        return f"? ({e})"


def _repo_rev():
    try:
        rev = subprocess.run(["git", "-C", gen.REPO, "rev-parse", "--short", "HEAD"], stdout=subprocess.PIPE, text=True).stdout.strip()
        dirty = subprocess.run(["git", "-C", gen.REPO, "status", "--porcelain", "--", "src"], stdout=subprocess.PIPE, text=True).stdout.strip()
        return rev + ("+dirty" if dirty else "")
    except Exception:
        return "?"


def write(prop, tier, seed, hs, chs, results, ch_results, decided, nontrivial, undecided, known_seen, stale,
          violations, inconclusive, wall, walls):
    queries = []
    funcs = set()
    solver_s = 0.0
    symex_s = 0.0
    samples = []
    for h in hs:
        r = results.get(h.full, {})
        st = r.get("cbmc_stats", {}) or {}
        funcs.update(r.get("functions", []))
        solver_s += float(st.get("runtime_solver_s") or 0)
        symex_s += float(st.get("runtime_symex_s") or 0)
        q = {"harness": h.full, "engine": "kani", "profile": h.profile, "tier": h.tier, "status": r.get("status"),
             "bound_and_inputs": h.desc, "required": h.required, "duration_s": r.get("duration_s"),
             "checks": r.get("n_checks"), "failed_checks": len(r.get("fails", [])),
             "covers_satisfied": sum(1 for c in r.get("covers", []) if c["status"] == "Satisfied"),
             "covers_total": len(r.get("covers", [])),
             "solver_time_s": st.get("runtime_solver_s"), "symex_time_s": st.get("runtime_symex_s"),
             "vccs": st.get("vccs_generated"), "vccs_after_simplification": st.get("vccs_remaining"),
             "program_size": st.get("size_program_expression")}
        queries.append(q)
        if len(samples) < 6 and r.get("covers"):
            samples.append({"harness": h.full, "symbolic_inputs_and_bound": h.desc,
                            "cover_witnesses": [c["desc"] for c in r["covers"] if c["status"] == "Satisfied"][:4]})
    for h in chs:
        r = ch_results.get(h.full, {})
        queries.append({"harness": h.full, "engine": "crosshair", "tier": h.tier, "status": r.get("status"),
                        "bound_and_inputs": h.desc, "required": h.required, "duration_s": r.get("duration_s"),
                        "paths": r.get("paths"), "message": (r.get("message") or "")[:300]})
        funcs.update(r.get("functions", []))
        if len(samples) < 8:
            samples.append({"harness": h.full, "symbolic_inputs_and_bound": h.desc, "verdict": r.get("status")})
    ev = {
        "property_id": prop,
        "tier": tier,
        "seed": seed,
        "level": "model_checking",
        "coverage": {
            "evaluations": decided,
            "distinct_nontrivial": nontrivial,
            "rule": "one evaluation = one solver query (a Kani/CBMC harness or a CrossHair contract) decided over ALL values "
                    "of its symbolic inputs inside the stated bound; distinct = distinct harness instantiations (different "
                    "entry point, size or frame); non-trivial = verdict 'holds' AND every kani::cover! reachability witness "
                    "of the harness was SATISFIED by the solver (CrossHair: 'confirmed over all paths' and the deliberately "
                    "wrong twin postcondition was refuted). Undecided (timeout/out-of-memory) queries are not counted.",
            "samples": samples or [{"note": "no query decided"}],
            "queries": queries,
            "functions_encoded": sorted(funcs),
            "solver_time_s": round(solver_s, 3),
            "symbolic_execution_time_s": round(symex_s, 3),
            "undecided": undecided,
            "known_findings_seen": known_seen,
            "known_findings_not_reproduced_this_run": stale,
            "inconclusive": [{"harness": n, "why": w[:500]} for n, w in inconclusive],
            "exhaustive": False,
            "group_wall_s": walls,
            "repo_revision": _repo_rev(),
            "tools": {"kani": _ver(["cargo", "kani", "--version"]), "cbmc": _ver(["cbmc", "--version"]),
                      "sat": "cadical (CBMC default)", "crosshair": "crosshair-tool 0.0.110 / z3 5.1.0 (python3-vt)"},
        },
        "assumptions": [
            "bounded: each query covers exactly the input sizes / loop unwindings stated in its bound_and_inputs line; unwinding assertions are on, so a too-small unwind bound fails the query instead of truncating it",
            "Kani models the dev profile (overflow checks on), single thread, allocation never fails",
            "model profile: pyo3, socket2, rand, des, aes, md-5, sha1 are replaced by the model crates in /verif/models (DESIGN.md section 3); real profile: real dependencies",
            "stubs listed per harness file header (fmt::format, f64 parsing, from_utf8 where stated)",
            "what lies outside the bounds is not claimed (DESIGN.md section 6, per property)",
        ],
        "wall_s": round(wall, 2),
        "violations": len(violations),
    }
    os.makedirs(os.path.join(gen.VERIF, "evidence"), exist_ok=True)
    with open(os.path.join(gen.VERIF, "evidence", f"{prop}.json"), "w") as f:
        json.dump(ev, f, indent=1)
