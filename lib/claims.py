"""Per-property claim texts for MANIFEST.json (kept next to the machinery that backs them)."""
KANI = "bounded model checking of the real Rust source (Kani/CBMC, SAT verdict over all symbolic inputs within stated bounds)"
CLAIMS = {
    "C01": {
        "engine": 'kani',
        "technique": 'bounded model checking of the real Rust source (Kani/CBMC, SAT verdict over all symbolic inputs within stated bounds)',
        "design_ref": "DESIGN.md section 6, C01",
        "text": 'Leaf decoders on every byte string up to the stated length (2..12 octets); message decoders on a well-formed prefix up to each parse position followed by 4 unconstrained octets; the receive loop with the decoder scripted (cut S8); decrypt with any salt length. Verdict = no panic / bounds / overflow / unwinding (termination) check fails for ANY such input.',
        "note": 'Trusted: Kani 0.68 / CBMC 6.11 / CaDiCaL; dev-profile semantics; stubs fmt::format, f64 parsing, from_utf8 (S1,S2,S3b); model socket/pyo3 in the loop harness; unconstrained regions longer than stated and the 4080-octet maximum are outside the claim.',
    },
    "C02": {
        "engine": 'kani',
        "technique": 'bounded model checking of the real Rust source (Kani/CBMC, SAT verdict over all symbolic inputs within stated bounds)',
        "design_ref": "DESIGN.md section 6, C02",
        "text": "For every supported value type, concrete tag/length form with fully symbolic content (+ symbolic trailing octet): typed decoder and SnmpValue dispatcher return exactly the X.690 denotation (two's complement / unsigned big endian / slice identity / special REAL values / binary REAL operands); conversion to the Python object model preserves value and type (OpGet harnesses).",
        "note": "Trusted: Kani 0.68 / CBMC 6.11 / CaDiCaL; dev-profile semantics; numeric value of decimal/binary REAL (float arithmetic) not decided, only acceptance, extent and operands; at most 1 varbind in the Python-object harnesses; OID->text rendering cut (S3') in op harnesses.",
    },
    "C03": {
        "engine": 'kani+crosshair',
        "technique": 'bounded model checking of the real Rust source (Kani/CBMC) + symbolic execution of the real Python modules (CrossHair/Z3)',
        "design_ref": "DESIGN.md section 6, C03",
        "text": 'Decomposed: (A) the real Op::from_python + push_pdu of v1/v2c/v3 into a local buffer equals an independent reference encoding for symbolic community/OID/engine/key contents at concrete lengths; (B) the real send path with push_pdu stubbed: request-id == masked random draw for every 64-bit draw, exactly the buffer content is sent once, nothing sent on error; (C) pooled buffer empty on reuse; Python fetch()/version policy by CrossHair.',
        "note": 'Trusted: Kani 0.68 / CBMC 6.11 / CaDiCaL; dev-profile semantics; text->OID cut S7 (decided in C08); end-to-end pymethod query measured infeasible (65 GB); buffer capacity 160 (hook); request-id widths concrete per query; GetNext/GetBulk PDUs covered at op level.',
    },
    "C04": {
        "engine": 'kani',
        "technique": 'bounded model checking of the real Rust source (Kani/CBMC, SAT verdict over all symbolic inputs within stated bounds)',
        "design_ref": "DESIGN.md section 6, C04",
        "text": "The real unwrap_pdu of v1/v2c/v3 on messages built as structs with arbitrary community/user/engine id/msgID/request-id after real random draws: delivered <=> identity and latest ids match (any i64 id, so modulo/prefix confusions are covered); decoders reject every 2-octet version value other than the session's; the receive loop skips strays, delivers the matching reply, ends on undecodable input.",
        "note": "Trusted: Kani 0.68 / CBMC 6.11 / CaDiCaL; dev-profile semantics; scripts longer than 2 datagrams follow by induction on 'the session holds one outstanding id' (paper step); decoder cut S8 in the loop harness.",
    },
    "C05": {
        "engine": 'kani+crosshair',
        "technique": 'bounded model checking of the real Rust source (Kani/CBMC) + symbolic execution of the real Python modules (CrossHair/Z3)',
        "design_ref": "DESIGN.md section 6, C05",
        "text": 'Walk step lemmas shared with C06 (one step from any iterator state and any reply equals the reference step) and the Python iterator wrappers (sync and async) yield exactly the concatenation of what the socket returns up to the end marker. The closed loop over a finite MIB is the composition of the step lemma with an RFC 3416 agent (paper argument; a bounded closed-loop harness is listed as thorough/optional).',
        "note": 'Trusted: Kani 0.68 / CBMC 6.11 / CaDiCaL; dev-profile semantics; OIDs up to 4 octets, replies of 1 varbind (the 2-3 varbind GetBulk step harnesses were withdrawn, DESIGN.md section 9); precedes cut S6 with its guarantee harness; CrossHair contracts bounded to 3+3 items.',
    },
    "C06": {
        "engine": 'kani+crosshair',
        "technique": 'bounded model checking of the real Rust source (Kani/CBMC) + symbolic execution of the real Python modules (CrossHair/Z3)',
        "design_ref": "DESIGN.md section 6, C06",
        "text": 'One step of the real OpGetNext/OpGetBulk + GetIter from an ARBITRARY reachable state and an arbitrary reply (any OIDs of 1..4 octets, 6 value kinds incl. the three exception values): yields only in-subtree, strictly increasing (arc-wise) data values in order, follow-up request == last accepted OID, stops otherwise; SnmpOid::precedes == arc-wise order for all OIDs up to 4 octets. Termination = strictly increasing OIDs under a fixed prefix (paper step).',
        "note": "Trusted: Kani 0.68 / CBMC 6.11 / CaDiCaL; dev-profile semantics; model pyo3; OID rendering cut S3'; GetBulk replies larger than 1 varbind not decided (withdrawn harnesses).",
    },
    "C07": {
        "engine": 'kani+crosshair',
        "technique": 'bounded model checking of the real Rust source (Kani/CBMC) + symbolic execution of the real Python modules (CrossHair/Z3)',
        "design_ref": "DESIGN.md section 6, C07",
        "text": 'OpGet::to_python for every value kind with any content (17 harnesses), 0 and 2 varbinds, Report and request PDUs against the documented table incl. exception classes and their base chain; sync/async Python get()/get_many() map BlockingIOError to TimeoutError and pass everything else through (CrossHair).',
        "note": 'Trusted: Kani 0.68 / CBMC 6.11 / CaDiCaL; dev-profile semantics; model pyo3 (exception classes by name and base chain); get_many dict construction at op level is listed thorough.',
    },
    "C08": {
        "engine": 'kani',
        "technique": 'bounded model checking of the real Rust source (Kani/CBMC, SAT verdict over all symbolic inputs within stated bounds)',
        "design_ref": "DESIGN.md section 6, C08",
        "text": "SnmpOid::try_from(&str) with the tokenizer's results scripted: for EVERY sequence of 2..4 arcs (any u32 or parse error each) the result is a refusal or exactly the canonical base-128 encoding, first arc <= 2, second <= 39; the real tokenizer (std split + u32::from_str) on concrete valid and malformed texts against a reference tokenizer; refused text sends nothing (send glue).",
        "note": 'Trusted: Kani 0.68 / CBMC 6.11 / CaDiCaL; dev-profile semantics; Rust std str::split / u32::from_str trusted (symbolic text through them measured infeasible); OID->text in C02.',
    },
    "C09": {
        "engine": 'kani',
        "technique": 'bounded model checking of the real Rust source (Kani/CBMC, SAT verdict over all symbolic inputs within stated bounds)',
        "design_ref": "DESIGN.md section 6, C09",
        "text": "DigestAuth::sign == RFC 2104 transcript (inner/outer key blocks, message as given, first 12 octets placed at the offset, nothing else touched) for any key/message/offset with transcript digests; a v3 authNoPriv message emitted by the real push_pdu equals the reference message with auth flag, MAC field = outer digest prefix, HMAC input = whole message with the field zeroed, key = the session's localized key.",
        "note": 'Trusted: Kani 0.68 / CBMC 6.11 / CaDiCaL; dev-profile semantics; MD5/SHA-1 primitives outside the claim (M6 transcript digests; parametric generic code); message shape concrete lengths (engine id 5, user 2).',
    },
    "C10": {
        "engine": 'kani',
        "technique": 'bounded model checking of the real Rust source (Kani/CBMC, SAT verdict over all symbolic inputs within stated bounds)',
        "design_ref": "DESIGN.md section 6, C10",
        "text": 'The real unwrap_pdu of a session holding an auth key on otherwise-matching replies of each forgery class. The pinned tree delivers them (no MAC / security-level check exists): recorded as KNOWN findings per class; valid-shape replies and Reports delivered stay guarded.',
        "note": 'Trusted: Kani 0.68 / CBMC 6.11 / CaDiCaL; dev-profile semantics; MAC validity itself cannot be judged at the unwrap_pdu layer (no raw datagram).',
    },
    "C11": {
        "engine": 'kani',
        "technique": 'bounded model checking of the real Rust source (Kani/CBMC, SAT verdict over all symbolic inputs within stated bounds)',
        "design_ref": "DESIGN.md section 6, C11",
        "text": 'What the privacy layer feeds the cipher mode (cut S9: mode constructors and bulk calls replaced by recorders): DES key = Kul[0..8], IV = Kul[8..16] xor salt, AES key = Kul[0..16], IV = boots||time||salt, plaintext = scoped PDU + zero padding to the block multiple, on the first AND second message (history independence); decrypt hands the whole ciphertext and the right key/IV to the mode and the whole plaintext to the decoder; salts of a length other than 8 refused.',
        "note": 'Trusted: Kani 0.68 / CBMC 6.11 / CaDiCaL; dev-profile semantics; cbc/cfb-mode/des/aes implementations outside the claim; PDU of 35 octets, engine id 5.',
    },
    "C12": {
        "engine": 'kani+crosshair',
        "technique": 'bounded model checking of the real Rust source (Kani/CBMC) + symbolic execution of the real Python modules (CrossHair/Z3)',
        "design_ref": "DESIGN.md section 6, C12",
        "text": 'Key localisation hashes Ku||engineID||Ku and returns the digest prefix (engine ids 0,12,25,32); password_to_master hashes exactly 2^20 octets of the repeated password for EVERY length 16384..2^20+64; algorithm codes, key types and key sizes are validated (error, never panic); Python User pads/aligns keys and forms algorithm codes (CrossHair).',
        "note": 'Trusted: Kani 0.68 / CBMC 6.11 / CaDiCaL; dev-profile semantics; passwords shorter than 16 KiB (loop trip count up to 2^20) not decided by the solver; MD5/SHA-1 outside the claim.',
    },
    "C13": {
        "engine": 'kani+crosshair',
        "technique": 'bounded model checking of the real Rust source (Kani/CBMC) + symbolic execution of the real Python modules (CrossHair/Z3)',
        "design_ref": "DESIGN.md section 6, C13",
        "text": 'unwrap_pdu adopts boots/time and a discovered engine id only from ACCEPTED messages and from the USM fields; the next request carries the adopted engine id/boots/time in USM and as context engine id (v3 wire harness); Python refresh() performs refresh, set_keys(deferred user), refresh (sync and async).',
        "note": 'Trusted: Kani 0.68 / CBMC 6.11 / CaDiCaL; dev-profile semantics; engine ids up to 5 octets; key re-localisation on set_keys covered through as_key_type harnesses (C12).',
    },
    "C14": {
        "engine": 'kani',
        "technique": 'bounded model checking of the real Rust source (Kani/CBMC, SAT verdict over all symbolic inputs within stated bounds)',
        "design_ref": "DESIGN.md section 6, C14",
        "text": 'Two consecutive encrypts from an arbitrary salt seed: DES salt = boots||counter, AES salt = 64-bit counter, each advancing by one (wrapping), 8 octets; uniqueness over < 2^32 / 2^64 messages per key installation is the paper step. With a privacy key the message carries the priv flag, msgData = cipher output, msgPrivacyParameters = returned salt (v3 wire harness, thorough).',
        "note": 'Trusted: Kani 0.68 / CBMC 6.11 / CaDiCaL; dev-profile semantics; cut S9; sequences longer than 2 by induction.',
    },
    "C15": {
        "engine": 'kani',
        "technique": 'bounded model checking of the real Rust source (Kani/CBMC, SAT verdict over all symbolic inputs within stated bounds)',
        "design_ref": "DESIGN.md section 6, C15",
        "text": "SnmpInt::push_ber == minimal two's complement TLV for EVERY i64 (two queries), decoder(content) == value for every content of 1..8 octets, oracle consistency; OID text->bytes canonical (C08 harnesses); push_tag_len minimal for every length < 65536.",
        "note": 'Trusted: Kani 0.68 / CBMC 6.11 / CaDiCaL; dev-profile semantics; message-level round trip follows from the encoder==reference (C03/C09) and decoder harnesses; buffer capacity 160.',
    },
    "C16": {
        "engine": 'kani',
        "technique": 'bounded model checking of the real Rust source (Kani/CBMC, SAT verdict over all symbolic inputs within stated bounds)',
        "design_ref": "DESIGN.md section 6, C16",
        "text": 'Every typed decoder and SnmpValue: rest == exactly the octets after the element, value independent of what follows (REAL two-tail query); header length == declared length (reference reading, up to 9 length octets); inner lengths running past the enclosing element and trailing octets after the top-level message are rejected on concrete frames.',
        "note": 'Trusted: Kani 0.68 / CBMC 6.11 / CaDiCaL; dev-profile semantics; tampered lengths by +1 in quick, +1..4 thorough; v3 trailing in thorough.',
    },
    "C17": {
        "engine": 'kani',
        "technique": 'bounded model checking of the real Rust source (Kani/CBMC, SAT verdict over all symbolic inputs within stated bounds)',
        "design_ref": "DESIGN.md section 6, C17",
        "text": 'One buffer operation from an arbitrary reachable state with arbitrary arguments: in-bounds (CBMC pointer checks over the unsafe blocks), OutOfBuffer iff it does not fit and then nothing changed, exact bytes written; encoder error => SnmpEncodeError and nothing sent (send glue).',
        "note": "Trusted: Kani 0.68 / CBMC 6.11 / CaDiCaL; dev-profile semantics; capacity 160 in the verification build (hook); exposure of never-written bytes not decided (Kani's uninit checker ICEs here).",
    },
    "C18": {
        "engine": 'kani+crosshair',
        "technique": 'bounded model checking of the real Rust source (Kani/CBMC) + symbolic execution of the real Python modules (CrossHair/Z3)',
        "design_ref": "DESIGN.md section 6, C18",
        "text": 'The real receive loop on the scripted socket with a virtual clock: silent agent => BlockingIOError after exactly the timeout (TimeoutError in Python, CrossHair), a matching reply within the timeout is delivered. With stray datagrams the wait is NOT bounded by the timeout on the pinned tree: recorded as a KNOWN finding.',
        "note": 'Trusted: Kani 0.68 / CBMC 6.11 / CaDiCaL; dev-profile semantics; async overall deadline (asyncio.wait_for over add_reader) not encodable: not decided.',
    },
}
CH = "symbolic execution of the real Python module with CrossHair/Z3 (accepted only when confirmed over all paths)"
CLAIMS["C19"] = {
    "engine": "crosshair",
    "technique": CH,
    "design_ref": "DESIGN.md section 6, C19",
    "text": "The inductive step of RPSPolicer.get_timeout is decided by Z3 for ALL integer states satisfying the invariant, all call "
            "times and all interval lengths; bounded windows of 3 and 4 real calls are decided directly. The k-window statement for "
            "arbitrary k is the telescoping of the step (paper argument, stated). Constructor refusal contracts involve float "
            "arithmetic that CrossHair cannot exhaust; they are run but optional (reported as undecided).",
    "note": "Trusted: CrossHair's model of CPython int semantics, Z3. The clock is an arbitrary non-decreasing integer. "
            "Float rounding in int(1e9 / rps), NaN/inf rates and real sleeping are outside the claim.",
}
NOT_APPLICABLE = {}
