"""Per-property claim texts for MANIFEST.json (kept next to the machinery that backs them)."""
KANI = "bounded model checking of the real Rust source (Kani/CBMC, SAT verdict over all symbolic inputs within stated bounds)"
CLAIMS = {
    "C01": {
        "engine": "kani",
        "technique": KANI,
        "design_ref": "DESIGN.md section 6, C01",
        "text": "Every leaf decoder and every composite decoder position is executed symbolically on all byte strings inside the "
                "stated size bound; the verdict is the SAT solver's over all of them (panics, index/slice bounds, arithmetic overflow, "
                "pointer checks, unwinding assertions = termination). Bounded, not a proof: sizes beyond the bounds are not claimed.",
        "note": "Trusted: Kani/CBMC/CaDiCaL; model crates for pyo3/socket2/rand/ciphers/digests in the op/socket layers; "
                "fmt::format, f64 parsing and from_utf8 stubbed where stated; dev-profile semantics.",
    },
}
CH = "symbolic execution of the real Python module with CrossHair/Z3 (accepted only when confirmed over all paths)"
CLAIMS["C19"] = {
    "engine": "crosshair",
    "technique": CH,
    "design_ref": "DESIGN.md section 6, C19",
    "text": "The inductive step of RPSPolicer.get_timeout is decided by Z3 for ALL integer states satisfying the invariant, all call "
            "times and all interval lengths; bounded windows of 3 and 4 real calls are decided directly. The k-window statement for "
            "arbitrary k is the telescoping of the step (paper argument, stated). Constructor refusal contracts involve float "
            "arithmetic that CrossHair cannot exhaust; they are run but optional (reported as undecided).",
    "note": "Trusted: CrossHair's model of CPython int semantics, Z3. The clock is an arbitrary non-decreasing integer. "
            "Float rounding in int(1e9 / rps), NaN/inf rates and real sleeping are outside the claim.",
}
NOT_APPLICABLE = {}
