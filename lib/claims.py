"""Per-property claim texts for MANIFEST.json (kept next to the machinery that backs them)."""
KANI = "bounded model checking of the real Rust source (Kani/CBMC, SAT verdict over all symbolic inputs within stated bounds)"
CLAIMS = {
    "C01": {
        "engine": "kani",
        "technique": KANI,
        "design_ref": "DESIGN.md section 6, C01",
        "text": "Every leaf decoder and every composite decoder position is executed symbolically on all byte strings inside the "
                "stated size bound; the verdict is the SAT solver's over all of them (panics, index/slice bounds, arithmetic overflow, "
                "pointer checks, unwinding assertions = termination). Bounded, not a proof: sizes beyond the bounds are not claimed.",
        "note": "Trusted: Kani/CBMC/CaDiCaL; model crates for pyo3/socket2/rand/ciphers/digests in the op/socket layers; "
                "fmt::format, f64 parsing and from_utf8 stubbed where stated; dev-profile semantics.",
    },
}
NOT_APPLICABLE = {}
