"""CrossHair runner (filled in later)."""


def discover():
    return []


def select(hs, prop, tier, only=None):
    return []


def run(chs, tier, jobs, log):
    return {}


def replay(h, f):
    return {"reproduced": False}


def replay_by_name(name, cex):
    return {"reproduced": False}
