"""CrossHair runner: symbolic execution of the real Python modules of /repo/src/gufo/snmp (via contracts in /verif/py).

A contract counts as *holds* only if CrossHair reports "Confirmed over all paths" for every postcondition of the
function (path space exhausted inside the stated bounds) - never on "no counterexample found before timeout".
Functions named `*_twin_must_fail` carry a deliberately wrong postcondition and must be REFUTED (vacuity guard).
"""
import ast
import concurrent.futures
import glob
import os
import re
import subprocess
import time

from . import gen

VERIF = gen.VERIF
PYDIR = os.path.join(VERIF, "py")
PY = "python3-vt"
META_RE = re.compile(r"^#@\s+(?P<props>C\d\d(?:,C\d\d)*)\s+(?P<tier>quick|thorough)(?P<opts>(?:\s+[a-z_]+(?:=[^\s|]+)?)*)\s*\|\s*(?P<desc>.*)$")


class Contract:
    engine = "crosshair"
    profile = "python"

    def __init__(self, module, name, props, tier, opts, desc, file, lineno, end_lineno):
        self.module, self.name, self.props, self.tier, self.opts, self.desc = module, name, props, tier, opts, desc
        self.file, self.lineno, self.end_lineno = file, lineno, end_lineno

    @property
    def full(self):
        return f"py::{self.module}::{self.name}"

    @property
    def required(self):
        return "optional" not in self.opts

    @property
    def is_twin(self):
        return self.name.endswith("_twin_must_fail")


def discover():
    out = []
    for path in sorted(glob.glob(os.path.join(PYDIR, "c[0-9][0-9]*.py"))):
        module = os.path.splitext(os.path.basename(path))[0]
        src = open(path).read()
        lines = src.split("\n")
        tree = ast.parse(src)
        funcs = {n.lineno: n for n in tree.body if isinstance(n, ast.FunctionDef)}
        for i, line in enumerate(lines):
            m = META_RE.match(line)
            if not m:
                continue
            fn = None
            for j in range(i + 1, min(i + 6, len(lines)) + 1):
                if (j + 1) in funcs:
                    fn = funcs[j + 1]
                    break
            if fn is None:
                raise SystemExit(f"{path}:{i+1}: #@ line without a function after it")
            opts = {}
            for tok in m.group("opts").split():
                k, _, v = tok.partition("=")
                opts[k] = v or True
            out.append(Contract(module, fn.name, m.group("props").split(","), m.group("tier"), opts,
                                m.group("desc").strip(), path, fn.lineno, fn.end_lineno))
    return out


def select(hs, prop, tier, only=None):
    sel = [h for h in hs if prop in h.props and (tier == "thorough" or h.tier == "quick")]
    if only:
        sel = [h for h in sel if any(o in h.full for o in only)]
    return sel


LINE_RE = re.compile(r"^(?P<file>[^:]+):(?P<line>\d+): (?P<kind>info|error): (?P<msg>.*)$")


def _run_one(c, per_cond):
    """Run CrossHair on one contract function."""
    cmd = [PY, "-m", "crosshair", "check", "--per_condition_timeout", str(per_cond), "--report_all",
           f"{c.module}.{c.name}"]
    env = dict(os.environ, PYTHONPATH=PYDIR, VERIF_REPO=gen.REPO)
    t0 = time.time()
    try:
        p = subprocess.run(cmd, cwd=PYDIR, env=env, stdout=subprocess.PIPE, stderr=subprocess.STDOUT, text=True,
                           timeout=per_cond * 12 + 120)
        out = p.stdout
    except subprocess.TimeoutExpired as e:
        out = (e.stdout or "") + "\nTIMEOUT"
    dur = time.time() - t0
    confirmed = refuted = unknown = 0
    msg = ""
    for line in out.split("\n"):
        m = LINE_RE.match(line.strip())
        if not m:
            continue
        if m.group("kind") == "error":
            refuted += 1
            msg = msg or m.group("msg")
        elif "Confirmed over all paths" in m.group("msg"):
            confirmed += 1
        else:
            unknown += 1
            msg = msg or m.group("msg")
    r = {"harness": c, "duration_s": round(dur, 2), "paths": None, "conditions_confirmed": confirmed,
         "functions": [f"gufo.snmp (python) via {c.module}.{c.name}"]}
    if c.is_twin:
        if refuted:
            r.update(status="confirmed", message=f"vacuity twin refuted as required: {msg}")
        else:
            r.update(status="unknown", message="vacuity twin was NOT refuted: " + (msg or out[-300:]))
        return c.full, r
    if refuted:
        cex = None
        m = re.search(r"when calling (\w+)\((.*)\)(?: \(which (returns|raises) .*\))?$", msg)
        if m:
            cex = {"function": m.group(1), "args": m.group(2)}
        r.update(status="refuted", message=msg, cex=cex)
    elif confirmed and not unknown and "TIMEOUT" not in out:
        r.update(status="confirmed", message="Confirmed over all paths")
    else:
        r.update(status="unknown", message=msg or out[-400:])
    return c.full, r


def run(chs, tier, jobs, log):
    per_cond = 90 if tier == "quick" else 900
    log(f"[crosshair] {len(chs)} contracts, per-condition timeout {per_cond}s")
    res = {}
    with concurrent.futures.ThreadPoolExecutor(max_workers=max(1, min(jobs, 12))) as ex:
        futs = [ex.submit(_run_one, c, int(c.opts.get("timeout", per_cond))) for c in chs]
        for f in futs:
            name, r = f.result()
            res[name] = r
    return res


REPLAY_SNIPPET = r'''
import sys, re, inspect
sys.path.insert(0, {pydir!r})
import {module} as M
fn = getattr(M, {name!r})
args = eval("(" + {args!r} + ",)", vars(M))
sig = list(inspect.signature(fn).parameters)
env = dict(vars(M)); env.update(dict(zip(sig, args)))
try:
    ret = fn(*args)
except BaseException as e:
    print("REPRODUCED raises", type(e).__name__); sys.exit(0)
env["__return__"] = ret
bad = []
for line in (fn.__doc__ or "").split("\n"):
    line = line.strip()
    if line.startswith("post:"):
        if not eval(line[5:].strip(), env):
            bad.append(line)
print("REPRODUCED " + "; ".join(bad) if bad else "NOT-REPRODUCED", "returns", repr(ret))
'''


def replay(h, f):
    cex = f.get("cex")
    if not cex:
        return {"reproduced": False, "why": "no counterexample call in CrossHair message"}
    code = REPLAY_SNIPPET.format(pydir=PYDIR, module=h.module, name=cex["function"], args=cex["args"])
    env = dict(os.environ, PYTHONPATH=PYDIR, VERIF_REPO=gen.REPO)
    p = subprocess.run([PY, "-c", code], cwd=PYDIR, env=env, stdout=subprocess.PIPE, stderr=subprocess.STDOUT, text=True)
    return {"reproduced": p.stdout.strip().startswith("REPRODUCED"), "output": p.stdout.strip()[-500:], "call": cex}


def replay_by_name(name, cex):
    _, module, fn = name.split("::")
    c = Contract(module, fn, [], "quick", {}, "", "", 0, 0)
    return replay(c, {"cex": cex})
