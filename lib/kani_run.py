"""Run Kani harnesses over the generated crates, classify and replay results."""
import glob
import hashlib
import json
import os
import re
import resource
import shutil
import subprocess
import sys
import time

from . import gen

VERIF = gen.VERIF
CACHE = gen.CACHE
KANI_ENV = dict(os.environ, CARGO_NET_OFFLINE="true")
KANI_ENV.pop("RUSTUP_TOOLCHAIN", None)
KANI_ENV.pop("RUSTFLAGS", None)

PROFILES = ("real", "real320", "full", "model", "model320")
META_RE = re.compile(r"^\s*//@\s+(?P<props>C\d\d(?:,C\d\d)*)\s+(?P<tier>quick|thorough)(?P<opts>(?:\s+[a-z_]+(?:=[^\s|]+)?)*)\s*\|\s*(?P<desc>.*)$")
NAME_RE = re.compile(r"(?:\bfn\s+([A-Za-z0-9_]+)\s*\()|(?:^\s*[a-z0-9_]+!\s*\(\s*([A-Za-z0-9_]+)\s*[,)])")


class Harness:
    def __init__(self, profile, module, name, props, tier, opts, desc, file, line):
        self.profile, self.module, self.name = profile, module, name
        self.props, self.tier, self.opts, self.desc = props, tier, opts, desc
        self.file, self.line = file, line

    @property
    def full(self):
        return f"proofs::{self.module}::{self.name}"

    @property
    def required(self):
        return "optional" not in self.opts

    def __repr__(self):
        return f"<{self.full} {self.props} {self.tier}>"


def discover():
    """Parse //@ metadata lines from /verif/harness/{real,model}/*.rs."""
    out = []
    for profile in PROFILES:
        for path in sorted(glob.glob(os.path.join(VERIF, "harness", profile, "*.rs"))):
            module = os.path.splitext(os.path.basename(path))[0]
            if module == "mod":
                continue
            lines = open(path).read().split("\n")
            i = 0
            while i < len(lines):
                m = META_RE.match(lines[i])
                if m:
                    j = i + 1
                    name = None
                    while j < len(lines) and j < i + 16:
                        n = NAME_RE.search(lines[j])
                        if n:
                            name = n.group(1) or n.group(2)
                            break
                        j += 1
                    if not name:
                        raise SystemExit(f"{path}:{i+1}: //@ line without a harness after it")
                    opts = {}
                    for tok in m.group("opts").split():
                        k, _, v = tok.partition("=")
                        opts[k] = v or True
                    out.append(Harness(profile, module, name, m.group("props").split(","), m.group("tier"),
                                       opts, m.group("desc").strip(), path, j + 1))
                i += 1
    names = [h.full for h in out]
    dup = {n for n in names if names.count(n) > 1}
    if dup:
        raise SystemExit(f"duplicate harness names: {dup}")
    return out


def select(harnesses, prop, tier, only=None):
    sel = [h for h in harnesses if prop in h.props and (tier == "thorough" or h.tier == "quick")]
    if only:
        sel = [h for h in sel if any(o in h.full for o in only)]
    return sel


def _limits(mem_gb):
    def f():
        lim = int(mem_gb * (1 << 30))
        resource.setrlimit(resource.RLIMIT_AS, (lim, lim))
        os.setsid()
    return f


def target_dir(profile):
    return os.path.join(CACHE, f"target-{profile}")


def kani_cmd(crate, profile, names, jobs, timeout_s, json_out, extra=()):
    cmd = ["cargo", "kani", "--manifest-path", os.path.join(crate, "Cargo.toml"),
           "--target-dir", target_dir(profile), "-Z", "stubbing", "-Z", "unstable-options",
           "--harness-timeout", f"{int(timeout_s)}s", "--no-assertion-reach-checks", "--exact"]
    for n in names:
        cmd += ["--harness", n]
    if jobs > 1 and len(names) > 1:
        cmd += ["-j", str(min(jobs, len(names))), "--output-format", "terse"]
    else:
        cmd += ["--output-format", "terse"]
    if json_out:
        cmd += ["--export-json", json_out]
    cmd += list(extra)
    return cmd


def run_group(profile, hs, tier, jobs, timeout_s, mem_gb, log):
    """Run one cargo-kani invocation for harnesses `hs` (same profile). Returns dict name -> result."""
    crate = gen.generate(profile)
    os.makedirs(os.path.join(CACHE, "out"), exist_ok=True)
    tag = hashlib.sha1((",".join(h.full for h in hs) + str(os.getpid()) + str(time.time())).encode()).hexdigest()[:10]
    json_out = os.path.join(CACHE, "out", f"kani-{tag}.json")
    cmd = kani_cmd(crate, profile, [h.full for h in hs], jobs, timeout_s, json_out)
    t0 = time.time()
    log(f"[kani:{profile}] {len(hs)} harnesses, jobs={jobs}, per-harness timeout {timeout_s}s")
    p = subprocess.run(cmd, env=KANI_ENV, stdout=subprocess.PIPE, stderr=subprocess.STDOUT, text=True,
                       preexec_fn=_limits(mem_gb), cwd=crate)
    wall = time.time() - t0
    raw = p.stdout
    with open(os.path.join(CACHE, "out", f"kani-{tag}.log"), "w") as f:
        f.write(" ".join(cmd) + "\n" + raw)
    results = {}
    if not os.path.exists(json_out):
        # build failure or driver crash: everything undecided
        err = "\n".join(l for l in raw.split("\n") if l.startswith("error"))[:2000]
        for h in hs:
            results[h.full] = {"status": "error", "reason": "no JSON from cargo kani (build failed?)", "detail": err or raw[-2000:]}
        return results, wall, raw
    d = json.load(open(json_out))
    os.remove(json_out)
    by_err = {e["harness_id"]: e for e in d.get("error_details", [])}
    by_cbmc = {c["harness_id"]: c for c in d.get("cbmc", [])}
    for r in d["verification_results"]["results"]:
        hid = r["harness_id"]
        checks = r.get("checks", [])
        e = by_err.get(hid, {})
        st = by_cbmc.get(hid, {}).get("cbmc_stats", {})
        res = {"duration_s": r.get("duration_ms", 0) / 1000.0, "cbmc_stats": st, "n_checks": len(checks)}
        if e.get("exit_status") == "timeout":
            res.update(status="timeout")
        elif not checks:
            res.update(status="error", reason=e.get("exit_status", "no checks reported (out of memory / CBMC error?)"))
        else:
            fails, covers, funcs, odd = [], [], set(), []
            undetermined = 0
            for c in checks:
                loc = c.get("location", {})
                f = loc.get("file", "") or ""
                if f.startswith(gen.REPO + "/src"):
                    funcs.add(c["function"])
                if c["category"] == "cover":
                    covers.append({"desc": c["description"], "status": c["status"], "line": loc.get("line")})
                elif c["status"] == "Failure":
                    fails.append({"function": c["function"], "category": c["category"], "desc": c["description"],
                                  "file": f, "line": loc.get("line")})
                elif c["status"] == "Undetermined":
                    undetermined += 1
                elif c["status"] not in ("Success", "Unreachable"):
                    odd.append(f"{c['status']}: {c['category']} {c['function']} {c['description'][:80]}")
            res.update(status="pass" if r["status"] == "Success" else "fail", fails=fails, covers=covers,
                       functions=sorted(funcs), undetermined=undetermined)
            if r["status"] != "Success" and not fails:
                res.update(status="error", reason="harness failed without a failed check; undetermined=%d other=%s" % (undetermined, odd[:5]))
        results[hid] = res
    for h in hs:
        results.setdefault(h.full, {"status": "error", "reason": "harness missing from Kani output", "detail": raw[-1500:]})
    return results, wall, raw


def norm_desc(d):
    d = re.sub(r"\s+", " ", d.strip())
    d = re.sub(r"^assertion failed: ", "", d)
    d = d.strip('"')
    return d[:120]


def fail_key(hfull, f):
    """Known-finding key: site and kind, no line numbers."""
    fn = f["function"]
    if fn.startswith("proofs::") or "/harness/" in (f.get("file") or ""):
        # harness-side assertion: identify by harness family (size suffix stripped) + message
        fam = re.sub(r"(_\d+)+$", "", hfull.replace("proofs::", ""))
        return f"{fam}|{norm_desc(f['desc'])}"
    return f"{fn}|{norm_desc(f['desc'])}"


# ---------------------------------------------------------------------------------------
# replay

PLAYBACK_RE = re.compile(r"```\n(.*?)```", re.S)


def concrete_tests(profile, h, timeout_s, mem_gb):
    crate = gen.generate(profile)
    cmd = ["cargo", "kani", "--manifest-path", os.path.join(crate, "Cargo.toml"), "--target-dir", target_dir(profile),
           "-Z", "stubbing", "-Z", "unstable-options", "--harness-timeout", f"{int(timeout_s)}s",
           "--no-assertion-reach-checks", "--exact", "--harness", h.full, "-Z", "concrete-playback", "--concrete-playback=print"]
    p = subprocess.run(cmd, env=KANI_ENV, stdout=subprocess.PIPE, stderr=subprocess.STDOUT, text=True,
                       preexec_fn=_limits(mem_gb), cwd=crate)
    tests = []
    for blk in PLAYBACK_RE.findall(p.stdout):
        m = re.search(r"fn (kani_concrete_playback_\w+)\(", blk)
        if m:
            chk = re.search(r'/// Check for `(\w+)`: "(.*)"', blk)
            tests.append({"name": m.group(1), "code": blk, "check": chk.group(2) if chk else ""})
    return tests


def run_playback(profile, h_file_rel, module, tests, per_test_timeout=60):
    """Copy the harness dir, append the tests to the harness's module, run each natively."""
    root = os.path.join(CACHE, f"replay-{os.getpid()}")
    shutil.rmtree(root, ignore_errors=True)
    hdir = os.path.join(root, "harness")
    shutil.copytree(os.path.join(VERIF, "harness"), hdir)
    target = os.path.join(hdir, profile, module + ".rs")
    with open(target, "a") as f:
        for t in tests:
            f.write("\n" + t["code"] + "\n")
    crate = gen.generate(profile, root=root, harness_dir=hdir)
    env = dict(KANI_ENV, CARGO_TARGET_DIR=os.path.join(CACHE, f"target-playback-{profile}"))
    outcomes = []
    for t in tests:
        cmd = ["cargo", "kani", "playback", "-Z", "concrete-playback", "--manifest-path",
               os.path.join(crate, "Cargo.toml"), "--", "--exact", f"proofs::{module}::{t['name']}"]
        t0 = time.time()
        try:
            p = subprocess.run(cmd, env=env, stdout=subprocess.PIPE, stderr=subprocess.STDOUT, text=True,
                               timeout=per_test_timeout + 600 if not outcomes else per_test_timeout + 120,
                               cwd=crate, preexec_fn=os.setsid)
            out = p.stdout
            if "test result: FAILED" in out:
                m = re.search(r"panicked at ([^\n]*)\n([^\n]*)", out)
                msg = m.group(2) if m else ""
                # `cargo kani playback` does not apply #[kani::stub]: a harness whose inputs come from scripted stubs can
                # desynchronise natively; a violated kani::assume is NOT a reproduction of the property failure
                kind = "assume-violated-natively" if "kani::assume" in msg else "panic"
                outcomes.append({"test": t["name"], "outcome": kind, "where": m.group(1) if m else "", "message": msg})
            elif "test result: ok. 1 passed" in out:
                outcomes.append({"test": t["name"], "outcome": "no-panic"})
            else:
                outcomes.append({"test": t["name"], "outcome": "build-or-run-error", "detail": out[-1500:]})
        except subprocess.TimeoutExpired:
            subprocess.run(["pkill", "-f", t["name"]])
            outcomes.append({"test": t["name"], "outcome": "hang", "seconds": time.time() - t0})
    shutil.rmtree(root, ignore_errors=True)
    return outcomes
